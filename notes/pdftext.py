import re, sys, zlib
def extract(path):
    data = open(path,'rb').read()
    out=[]
    for m in re.finditer(rb'stream\r?\n', data):
        s = m.end()
        e = data.find(b'endstream', s)
        raw = data[s:e]
        try:
            dec = zlib.decompress(raw)
        except Exception:
            try: dec = zlib.decompressobj().decompress(raw)
            except Exception: continue
        if b'BT' not in dec: continue
        txt=[]
        for tm in re.finditer(rb'\[((?:[^\[\]\\]|\\.)*)\]\s*TJ|\(((?:[^()\\]|\\.)*)\)\s*Tj|(T\*|Td|TD|ET|\'|")', dec):
            if tm.group(1) is not None:
                parts = re.findall(rb'\(((?:[^()\\]|\\.)*)\)|(-?\d+\.?\d*)', tm.group(1))
                s=''
                for p,n in parts:
                    if p or not n:
                        s+=p.decode('latin1')
                    else:
                        if float(n) < -200: s+=' '
                txt.append(s)
            elif tm.group(2) is not None:
                txt.append(tm.group(2).decode('latin1'))
            else:
                txt.append('\n')
        out.append(''.join(txt))
    return '\n=====PAGE=====\n'.join(out)
print(extract(sys.argv[1]))
