#!/bin/bash
# usage: mut.sh <name> <sed-expr> <file> <check> [tier]   -- apply a one-line edit to a scratch copy and run a check on it
set -e
name=$1; expr=$2; file=$3; check=$4; tier=${5:-quick}
d=/tmp/hexmut-$name
rm -rf $d; mkdir -p $d
rsync -a --exclude _build --exclude .git /repo/ $d/
sed -i -E "$expr" $d/$file
diff -u /repo/$file $d/$file | head -20 || true
cd /verif
VERIF_REPO=$d python3 vcheck.py $check $tier | tail -15
echo "exit=${PIPESTATUS[0]}"
tag=alt$(printf %s "$d" | sha256sum | cut -c1-6)
rm -rf $d /verif/build/$tag-* /verif/build/.lock-$tag-*
git -C /verif checkout -- evidence 2>/dev/null || true
