#!/usr/bin/env python3
"""Writes /verif/MANIFEST.json from the table below (kept in one place so it stays valid)."""
import json
import os
import subprocess

V = os.path.dirname(os.path.dirname(os.path.abspath(__file__)))

CHECKS = {
    "C02": dict(
        technique="runtime monitoring: per-instruction lock-step of hexsim (HEX_VERIF observer/state hooks) against an executable reference ISA model",
        engine="refisa",
        text="Exploration: every one of the 228 defined instruction bytes is executed from planted corner/random states, plus "
             "execute-driven random instruction sequences and system-call sequences over console and simin/simout files; after every "
             "instruction pc/areg/breg/oreg, stored words, I/O and exit value are compared with the reference model. Registers have "
             "2^32 values each, so states are sampled (corners enumerated); nothing is proved.",
        note="Trusted: harness/refisa.hpp (written from the simulator listing in docs/PDFs/hexb.pdf). Undefined instructions and "
             "accesses outside the 200000-word memory end a case uncompared.",
        ref="4/C02"),
    "C04": dict(
        technique="runtime monitoring: decode-walk of emitted images with the ISA operand rule (exhaustive over 2^32 values in the thorough tier)",
        engine="asm-decode",
        text="Exploration, exhaustive in the thorough tier: every 32-bit value is assembled for all 12 immediate-taking mnemonics at "
             "directive level and for LDAC/BR in both spellings at text level, through the real Lexer/Parser/CodeGen/emitProgramBin "
             "path, and each emitted chain is decoded with the ISA prefix rule (opcode, delivered value, chain boundaries, padding). "
             "The quick tier covers all boundary windows, all |v| < 2^20 and ~5e7 strided values, each in five written forms: unsigned, "
             "signed, -n for every value (n up to 2^32-1) and the first and third of these with one to four leading zeros.",
        note="Trusted: the 8-line prefix decoder in harness/h_asm.cpp. Text-level completeness is for two of twelve mnemonics.",
        ref="4/C04"),
    "C05": dict(
        technique="runtime monitoring: decode-walk of every emitted image against the generator's directive list (label addresses derived from the walk, operands checked with the ISA rule), layout-pass hook as termination monitor",
        engine="asm-decode",
        text="Exploration: generated assembly programs (boundary sweeps of every reference kind around the 1/2/3/4-byte operand "
             "boundaries in both directions, dependent chains, DATA-alignment interplay, labels before DATA, random programs, shipped .S "
             "files) are assembled by the real code; each accepted image is walked directive by directive and every relative operand must "
             "satisfy end+operand = label address, every absolute operand = label word address (unaligned must be rejected), DATA aligned and "
             "equal, padding zero, header length = image size, symbol table = FUNC/PROC positions.",
        note="Trusted: lib/asmsrc.py decode_walk and the ISA prefix rule. Rejected programs are counted, not judged. Duplicate labels are out of scope (C10).",
        ref="4/C05"),
    "C17": dict(
        technique="runtime monitoring: listing lines decoded against the emitted image at their listed offsets",
        engine="asm-decode",
        text="Exploration: for generated and shipped assembly programs (in-process API in bulk, the real hexasm executable with "
             "--instrs and -o in separate runs for a sample) and compiled X programs (xcmp -S), every instruction/DATA line of the listing is "
             "checked against the image: opcode, encoded length, operand value (immediate or label value), order, zero gaps, nothing left over.",
        note="Trusted: lib/asmsrc.py check_listing. Label and PADDING lines and the trailing total are outside the property.",
        ref="4/C17"),
    "C01": dict(
        technique="runtime monitoring: differential execution against an executable reference semantics (system-call event logs of hexsim under the HEX_VERIF observer vs the reference interpreter's event log), with a well-definedness monitor as the quantifier",
        engine="xref",
        text="Exploration: random grammar derivations (globals, val/var/array, procedures and functions with value and array parameters, "
             "recursion, strings, named and numbered system calls, console and file streams), complete operand-kind x operator x context "
             "shape matrices, calling-convention matrices (0-10 actuals) and the shipped sources are interpreted by lib/xref.py; every run it "
             "deems fully defined is compiled by the real xcmp::Driver and executed on hexsim::Processor; per-stream output bytes, input "
             "bytes consumed and the 32-bit exit value must agree, and the compiler must not reject or crash.",
        note="Trusted: lib/xref.py (independent parser, interpreter, ill-definedness filter incl. evaluation-order read/write-set conflicts). "
             "Ill-defined and over-budget runs are discarded and counted; yield below 30% makes the run inconclusive.",
        ref="4/C01"),
    "C08": dict(
        technique="runtime monitoring: memory-access callbacks of the reference ISA model running the emitted image in lock-step with hexsim, plus ASan/UBSan build of hexsim as a second monitor",
        engine="xref",
        text="Exploration: the binaries of well-defined X programs (random programs, recursion to depth 199 with frames of 0-40 words, "
             "arrays filling the top of memory to the last word, empty-frame procedures leaving by stop/exit/return at every call depth) are "
             "executed with every fetch, load and store checked against the memory limit and the image's code/data regions, the stack-pointer "
             "word monitored on every store and compared whenever control arrives back at the entry stub; the run is stopped before an access "
             "would leave memory. Added families: main entered again from X code, calls inside later actuals and subscripts, array copies, "
             "bounds tests guarding an access one element past either array.",
        note="Trusted: harness/refisa.hpp callbacks and the region rule (code = from the entry branch target to the end of the image). "
             "Dynamic: only executed code is observed.",
        ref="4/C08"),
    "C07": dict(
        technique="runtime monitoring: differential execution of constant-leaf, run-time-leaf and mixed variants of the same expression on hexsim",
        engine="xref",
        text="Exploration with a complete grid: every binary operator over a 61-value operand set on each side (all boundary values for "
             "immediate/pool loads and the 32-bit limits, including pairs whose sum or difference wraps), unary operators, boolean operators "
             "over 0/1, and random trees up to depth 5 with K/R/M leaf assignments, each placed in eight contexts (exit argument, assignment, "
             "actual, return, condition, system-call argument, subscript, nested operand; also val initialiser, nested constant, and the value "
             "itself as an if/while condition). Constants are spelled as numbers, true/false, character and hexadecimal literals; one leaf may be "
             "wrapped in a call with an output side effect in every variant. Variants must exit with the same value and output.",
        note="Oracle = equality of variants (that is the property); the 32-bit wrap value is logged only for diagnosis. Values between the grid points are sampled.",
        ref="4/C07"),
    "C15": dict(
        technique="runtime monitoring: online matching of hexsim -t trace text against the reference ISA step trace, symbol table and reference call log",
        engine="xref",
        text="Exploration: well-defined generated programs (1-8 procedures in random order, recursion, calls in every operand position) are "
             "run with tracing into a string stream; every record's count/address/symbol+offset/mnemonic/operand is matched against the "
             "reference model's k-th step and the code ranges read from the binary's own table; the table must list each procedure once in "
             "address order; procedure entries detected on the reference model (LDAP+BR) must land on the table offsets of the reference "
             "interpreter's call log (as a sequence when the source forces the order, as a multiset otherwise). Programs with never-called "
             "filler procedures push code beyond byte offsets 2^16, 200000, 2^18 and (thorough) 2^19.",
        note="Trusted: refisa step trace, lib/xref.py call log, lib/asmsrc.parse_debug. Also checks that tracing changes neither exit value, input position nor system calls.",
        ref="4/C15"),
    "C03": dict(
        technique="runtime monitoring: per-clock lock-step of the Verilated RTL against hexsim (HEX_VERIF hook) and the reference ISA model, state planted through public variables",
        engine="rtl-lockstep",
        text="Exploration, exhaustive in the instruction-byte dimension: all 228 defined bytes x planted corner/random states (registers "
             "and memory poked by name through Verilator's public-variable tables, 2% reached architecturally from reset), execute-driven "
             "defined sequences and toolchain binaries from reset; after every clock pc/areg/breg/oreg must equal hexsim's and the "
             "reference's after one instruction, the store request (valid/we/address/data) and the written word must match, and "
             "o_syscall_valid/o_syscall must equal 'instruction is SVC'/areg[1:0]. Non-zero registers are planted before every reset, and "
             "random code is run from reset with every byte value in turn at address 0; stores into the word being executed are included.",
        note="Trusted: refisa (range filter: byte addresses < 800000, words < 200000, defined opcodes) and Verilator honouring pokes (self-checked). Register values are sampled.",
        ref="4/C03"),
    "C16": dict(
        technique="runtime monitoring: three-way per-clock lock-step of Verilated processor.sv, verilog/processor.v and synth/processor.v",
        engine="rtl-lockstep",
        text="Exploration, exhaustive in the instruction-byte dimension: all 256 bytes x planted states, random byte sequences from reset "
             "and toolchain binaries; before each clock edge the seven processor outputs and after it the four registers and the written "
             "memory word are compared between the three models, under randReset 0/1/2 and --x-assign/--x-initial unique; mid-run resets are "
             "held over a clock edge or pulsed between two edges.",
        note="Behavioural, two-state simulation; X terms of the sv2v text are sampled. Textual identity of the two copies is reported as information only.",
        ref="4/C16"),
    "C13": dict(
        technique="runtime monitoring: differential runs of the real hextb across Verilator seeds, and of hextb.cpp's own load()/run() under planted adversarial power-on states, against hexsim's result",
        engine="rtl-lockstep",
        text="Exploration: (1) the hextb executable on 6-40 binaries x 1500-10000 consecutive +verilator+seed values, stdout and exit "
             "status compared with hexsim; (2) a harness linking hextb.cpp with a Vhex_pkg model plants, before load(), registers and "
             "non-image memory so that a pre-reset clock edge would service a system call, store into each class of image word or arrive "
             "at reset with dirty registers; full runs must give the clean result and runs cut just before the first post-reset "
             "instruction must show zero registers, an intact image, no output and no input consumed. The fixed binaries include programs "
             "whose input runs out, input bytes >= 0x80, reads at a fresh stack depth and a file stream without a file.",
        note="Power-on states are sampled and targeted, not enumerated. Expected result = hexsim on the same binary/input.",
        ref="4/C13"),
    "C06": dict(
        technique="runtime monitoring: differential execution of the hextb and hexsim executables (stdout, exit status, simout files) and in-process with counted input",
        engine="rtl-lockstep",
        text="Exploration: binaries of generated well-defined X programs and the shipped sources, 1-2 inputs each (empty, bytes >= 0x80, "
             "reads past end of input, file streams), run on both executables built from the tree and, in-process, on hextb.cpp's own "
             "load()/run() versus hexsim::Processor with the number of consumed input bytes compared; the executables read their input from "
             "a regular file and the position it is left at is compared. Hand-written-style assembly programs add shapes no compiler emits "
             "(adjacent SVC, use of the zero start state of the registers, corner constants, a word-size loop).",
        note="Trusted: lib/xref.py only as the filter for 'well-defined'. hextb runs use a fixed seed here; seed independence is C13.",
        ref="4/C06"),
    "C14": dict(
        technique="runtime monitoring: process monitor over the shipped executables (exit status, stderr, before/after directory snapshots) with in-process acceptance ground truth",
        engine="procmon",
        text="Exploration: accepted and rejected assembly and X sources (generated programs, token-damaged programs, hand-written "
             "lexer/parser/semantic/label errors) are passed to the hexasm, xcmp and xrun executables built from the tree in fresh "
             "directories with every argument order and option spelling, output names with directories and spaces, the output path absent "
             "or pre-filled with a sentinel; status, diagnostics, the file written (byte-equal to the in-process image), absence of other "
             "new or changed files, and xrun == xcmp+hexsim (stdout and status = exit value & 0xFF) are checked; also rejections without a "
             "source location, --memory-info, a second xrun in the same directory, cycle-limit boundaries and programs comparing input "
             "bytes >= 0x80.",
        note="Acceptance ground truth from the in-process library call on the same bytes. I/O faults are outside the property.",
        ref="4/C14"),
    "C12": dict(
        technique="runtime monitoring: differential runs of hexsim under perturbed host state (dirty stack shim, dirty backing store, environment, ASLR), lock-step against a zero-memory reference, valgrind memcheck",
        engine="procmon",
        text="Exploration: images that read words they never wrote (unset variables, unwritten arrays, loads beyond the image), "
             "well-defined generated programs and infinite loops cut by --max-cycles are run (a) as the hexsim executable under 6-8 host "
             "states incl. an LD_PRELOAD shim that fills 6 MiB of stack with seeded patterns before main, (b) in-process with the Processor "
             "placement-constructed in storage filled with 0x00/0xFF/0xA5/PRNG bytes in lock-step with the reference model (zero memory), "
             "with tracing on and off, and once after another simulation in the same process that dirtied all of memory, (c) under memcheck. "
             "Output, exit status, input position (also as the position a regular-file standard input is left at) and system calls must be "
             "identical. Also: file streams that are missing, empty or exhausted, image files that end early, long traced runs.",
        note="A run that observes no read-before-write is inconclusive. Host states are sampled.",
        ref="4/C12"),
    "C11": dict(
        technique="runtime monitoring: byte comparison of binaries and listings across perturbed host states (MALLOC_PERTURB_, dirty-heap LD_PRELOAD shim, environment, ASLR, compilation history) plus valgrind memcheck",
        engine="procmon",
        text="Exploration: generated, shipped and 'accepted but unusual' X and assembly sources are compiled by the xcmp/hexasm "
             "executables under 12-16 host states for every output action (binary, -S, --tree, --tree-opt, --insts*, --instrs, --tokens) "
             "and must be byte-identical; in-process the same source is compiled first, third and fiftieth in a process, and through a Driver "
             "(lexer and parser for hexasm) object that has already processed 2-9 other sources, a third of them hand-written unusual ones "
             "(rejected at each stage, out-of-range literals), with the listing produced before or after the binary; memcheck reports any "
             "dependence on uninitialised memory directly.",
        note="Host states are a sample; memcheck narrows the gap.",
        ref="4/C11"),
    "C09": dict(
        technique="sanitizers (ASan+UBSan+_GLIBCXX_ASSERTIONS, fork per case) and valgrind memcheck over hostile generated inputs, with an accept/reject outcome monitor",
        engine="sanfuzz",
        text="Exploration: 1.5e5 (quick) to 3e6 (thorough) byte strings up to 4 KiB - random bytes, printable noise, token soups, "
             "token-level mutations/splices/truncations of generated and shipped programs, deep nesting, ~50 families of grammatical but "
             "semantically odd programs - through xcmp::Driver in the sanitizer build, one forked process per case; a sample through the "
             "real main() (sanitizer build of xcmp.cpp, incl. rejected lines containing every byte value) and a sample plus the enumerated "
             "forms under memcheck. Violation = sanitizer report, assertion, signal, non-std exception, confirmed hang, an outcome that is "
             "neither (image, no diagnostic) nor (diagnostic, no output), or an error object of a class that is always given a source "
             "position but carries none.",
        note="A clean sanitizer run is not memory safety (intra-object overflows are invisible to red zones). Watchdog firings are re-run alone at 10x budget; unreproduced ones are counted, not reported.",
        ref="4/C09"),
    "C10": dict(
        technique="sanitizers (ASan+UBSan, fork per case) and memcheck over hostile generated assembly sources; HEX_VERIF layout-pass hook as deterministic non-termination monitor",
        engine="sanfuzz",
        text="Exploration: 2e5 (quick) to 5e6 (thorough) byte strings - random bytes, token soups, mutations of generated and shipped .S "
             "files, undefined/duplicated/keyword-like labels, literals beyond 32 and 64 bits, end of file after every token, empty "
             "sources, rings of references at boundary distances - through Lexer/Parser/CodeGen/emitBin in the sanitizer build with the "
             "layout hook bounding passes at 8 x directives + 64; sample through hexasm's real main() and under memcheck.",
        note="Same limits as C09.",
        ref="4/C10"),
}

PENDING_REASON = "no check registered yet in this revision of /verif (machinery for it is still being built; see DESIGN.md section 4)"


def main():
    props = [json.loads(l)["id"] for l in open(os.path.join(V, "properties.jsonl"))]
    hooks_commits = []
    try:
        out = subprocess.run(["git", "-C", "/repo", "log", "--format=%H %s"], stdout=subprocess.PIPE).stdout.decode()
        for line in out.splitlines():
            h, s = line.split(" ", 1)
            if "HEX_VERIF" in s:
                hooks_commits.append(h)
    except Exception:
        pass
    m = {
        "version": 1,
        "setup_cmd": "python3 vcheck.py --setup",
        "hooks": {
            "guard": "HEX_VERIF",
            "enable": "-DHEX_VERIF on the harness compiles that include hexsim.hpp/hexasm.hpp (lib/common.py FLAVOURS); "
                      "the five shipped executables used by process-level checks are built with the guard OFF",
            "baseline_off_cmd": "bash tools/baseline_off.sh",
            "source_commits": hooks_commits,
            "add_only": True,
        },
        "engines": [
            {"name": "refisa", "path": "harness/refisa.hpp", "serves_properties": ["C02"],
             "kind_free_text": "executable reference model of the Hex ISA with pre-step classifier and access monitors"},
            {"name": "asm-decode", "path": "harness/h_asm.cpp", "serves_properties": ["C04", "C05", "C17"],
             "kind_free_text": "in-process assembler driver (HEX_VERIF layout hook) with image decode-walk"},
            {"name": "xref", "path": "lib/xref.py", "serves_properties": ["C01", "C07", "C08", "C15"],
             "kind_free_text": "reference parser and definitional interpreter for X with event log and well-definedness monitor; lib/xgen.py generators; harness/h_x.cpp compile+lock-step runner"},
            {"name": "rtl-lockstep", "path": "harness/h_rtl.cpp", "serves_properties": ["C03", "C06", "C13", "C16"],
             "kind_free_text": "Verilated models built by the check from the working tree, stepped in lock-step; state access by name"},
            {"name": "procmon", "path": "checks/c14.py", "serves_properties": ["C11", "C12", "C14"],
             "kind_free_text": "runs shipped executables in scratch directories, snapshots files, compares with in-process results"},
            {"name": "sanfuzz", "path": "lib/fuzzcheck.py", "serves_properties": ["C09", "C10"],
             "kind_free_text": "hostile input generators (lib/bytegen.py), fork-per-case sanitizer harnesses, violation keys from the innermost repo frame"},
            {"name": "buildcache", "path": "lib/common.py", "serves_properties": sorted(CHECKS),
             "kind_free_text": "content-hash build cache, fork-per-case runner, verdict/evidence/known-finding plumbing"},
        ],
        "checks": [],
        "not_applicable": [],
        "notes": "Technique family: runtime monitoring and sanitizers. All checks honour VERIF_SEED and VERIF_REPO. "
                 "Exit 0 held / 1 violation / 2 inconclusive or harness failure.",
    }
    for p in props:
        if p in CHECKS:
            c = CHECKS[p]
            m["checks"].append({
                "property_id": p,
                "quick_cmd": "python3 vcheck.py %s quick" % p,
                "thorough_cmd": "python3 vcheck.py %s thorough" % p,
                "evidence_file": "evidence/%s.json" % p,
                "replay_cmd_template": "python3 vcheck.py %s --replay {path}" % p,
                "engine": c["engine"],
                "level_claimed": {"category": "exploration", "text": c["text"], "design_ref": c["ref"]},
                "level_note": c["note"],
                "technique": c["technique"],
            })
        else:
            m["not_applicable"].append({"property_id": p, "reason": PENDING_REASON})
    with open(os.path.join(V, "MANIFEST.json"), "w") as f:
        json.dump(m, f, indent=1)
        f.write("\n")
    print("wrote MANIFEST.json: %d checks, %d not_applicable" % (len(m["checks"]), len(m["not_applicable"])))


if __name__ == "__main__":
    main()
