#!/bin/bash
# Run every kept seeded change against its owning check (quick tier) and report caught / MISSED.
# usage: seedall.sh [lane nlanes]   - with two numbers only every nlanes-th seed (starting at lane) is run
cd "$(dirname "$0")/.."
lane=${1:-0}; nl=${2:-1}; k=0
for d in seeded/*/; do
  k=$((k+1))
  [ $((k % nl)) -eq $lane ] || continue
  id=$(basename $d)
  chk=$(python3 -c "import json; print(json.load(open('$d/meta.json'))['property'])")
  out=$(timeout 3000 tools/seedcheck.sh $id $chk 2>/dev/null | grep -E "^ *[0-9]+ +C[0-9]+:" | head -1)
  case "$out" in
    *violations*) echo "$id caught   $out" ;;
    *) echo "$id MISSED   $out" ;;
  esac
done
