#!/bin/bash
# usage: seedcheck.sh <seed-id> <check> [tier]  -- apply /verif/seeded/<id>/patch.diff to a scratch copy of /repo HEAD and run a check on it
id=$1; check=$2; tier=${3:-quick}
d=/tmp/seedcheck-$id-$$
rm -rf $d; mkdir -p $d
git -C /repo archive HEAD | tar -x -C $d; rm -rf $d/_build
(cd $d && patch -p1 -s < /verif/seeded/$id/patch.diff) || { echo "patch failed"; rm -rf $d; exit 2; }
cd /verif
VERIF_REPO=$d python3 vcheck.py $check $tier > $d.out 2>&1
grep -E "key=" $d.out | sort | uniq -c | sort -rn | head -10
grep -E "^C[0-9]+:" $d.out | tail -1 | sed 's/^/      1 /'
rm -f $d.out
tag=alt$(printf %s "$d" | sha256sum | cut -c1-6)
rm -rf $d /verif/build/$tag-* /verif/build/.lock-$tag-*
git -C /verif checkout -- evidence 2>/dev/null
