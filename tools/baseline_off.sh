#!/bin/bash
# Runs the repository's own unit-test suite (the 129 baseline cases) with the
# HEX_VERIF guard OFF, i.e. the default CMake build, in a build directory of
# ours (/repo/_build is tracked by the snapshot commit and is left alone).
set -e
V=$(cd "$(dirname "$0")/.." && pwd)
R=${VERIF_REPO:-/repo}
B=${VERIF_BASELINE_BUILD:-$V/build/baseline}
mkdir -p "$B"
cmake -G Ninja -S "$R" -B "$B" -DCMAKE_BUILD_TYPE=RelWithDebInfo -DCMAKE_CXX_FLAGS=-Wno-error >/dev/null
cmake --build "$B" -j 16 >/dev/null
n=$(cd "$B/tests/unit" && ./UnitTests --list_content 2>&1 | grep -c '^    [a-zA-Z]' || true)
echo "unit test cases listed: $n"
# 'tests' (tests/tests.py) needs installed binaries and fails in the pinned baseline too (always_fail).
ctest --test-dir "$B" -R UnitTests --timeout 900 --output-on-failure "$@"
(cd "$B/tests/unit" && ./UnitTests --report_level=short 2>&1 | tail -4)
