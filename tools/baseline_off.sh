#!/bin/bash
# Runs the repository's own test suite with the HEX_VERIF guard OFF (the default build).
set -e
B=${VERIF_BASELINE_BUILD:-/repo/_build}
cmake -G Ninja -S /repo -B "$B" -DCMAKE_BUILD_TYPE=RelWithDebInfo -DCMAKE_CXX_FLAGS=-Wno-error >/dev/null
cmake --build "$B" -j 16 >/dev/null
ctest --test-dir "$B" -j8 --timeout 900 "$@"
