#!/usr/bin/env python3
"""Write the prompt given to an independent sub-agent that is to seed a defect for one property.
usage: seedprompt.py <Cxx> <worktree> <out.txt> "<earlier seed 1>; <earlier seed 2>; ..."
The sub-agent receives this text only (the property's statement and its own worktree), nothing from /verif."""
import json
import sys

TMPL = """You are helping test a verification suite by producing ONE realistic seeded defect ("mutant") in a C++/Verilog code base.

Code base: a git worktree of the project jameshanlon/hex-processor at {wt} (an educational toolchain for the Hex ISA: X-language compiler xcmp.hpp/xcmp.cpp, assembler hexasm.hpp/hexasm.cpp, instruction-set simulator hexsim.hpp/hexsimio.hpp/hexsim.cpp, xrun.cpp, Verilog implementation under verilog/ and synth/ with a Verilator testbench hextb.cpp; unit tests under tests/unit). Work ONLY inside {wt}. Do not touch /repo or /verif (do not even read /verif). Do not commit anything. Do NOT use `git stash` (the stash is shared with other worktrees used by other people at the same time).

The semantic property to break:

{prop}

Your task: make a small, realistic change to the source in {wt} (the kind of slip a maintainer could make) such that
  1. the project still compiles and the existing unit-test suite still passes completely, and
  2. the property above is violated for SOME inputs, but NOT in a way that ordinary use would expose at once: the violation must need something specific to manifest (a rare value, an unusual but legal input shape, a multi-step sequence, two cooperating sites, an interaction between features, a particular state). A change that breaks every program, or that any smoke test would catch, is NOT wanted. Think about which parts of the property's statement are hardest for a tester to exercise, and aim there.

IMPORTANT - seeded defects for this property already exist; they were: {prevs}. Produce something DIFFERENT in kind and location from all of them: a different function or file, a different mechanism, a different trigger, and preferably a clause of the statement none of them touched.

How to build and run the existing tests (use a build directory of your own inside the worktree, NOT the tracked _build directory; the machine is busy, builds may take a few minutes):
  cmake -G Ninja -S {wt} -B {wt}/_b -DCMAKE_BUILD_TYPE=RelWithDebInfo -DCMAKE_CXX_FLAGS=-Wno-error >/dev/null && cmake --build {wt}/_b -j 6 >/dev/null && (cd {wt}/_b/tests/unit && ./UnitTests)
The suite must end with "*** No errors detected". (The python test 'tests' needs installed binaries and fails on the unmodified tree too; ignore it.) The machine has no network. Always wrap commands that might hang in `timeout`.

Deliverables, all inside {wt}:
  * the source change itself, left uncommitted in the worktree, and also saved as {wt}/seed.patch (output of `git diff -- . ':(exclude)_build' ':(exclude)_b'` taken from {wt});
  * a demonstration {wt}/demo.sh (bash; it may compile a small C++ program against the headers in the worktree or build/run the executables; any input files it needs must be created by demo.sh itself (here-documents), not kept in separate directories) that exits 0 when the property holds for its chosen input and non-zero when it is violated. It must FAIL with your change applied and PASS on the unmodified sources (check with `git apply -R seed.patch` then `git apply seed.patch`), and finish within two minutes;
  * {wt}/seed.md: which property it breaks, what exactly is needed for the violation to manifest, and the commands you ran with their results.

Finish by reporting: a one-paragraph description of the change, what is needed to trigger it, and confirmation of the three checks above. Keep the change small. Before finishing verify that `git diff` in your worktree contains ONLY your own change."""


def main():
    pid, wt, out, prevs = sys.argv[1:5]
    for l in open("/verif/properties.jsonl"):
        d = json.loads(l)
        if d["id"] != pid:
            continue
        prop = "Title: %s\n\nStatement: %s\n\nQuantified over: %s\n\nFiles the property is anchored in: %s" % (
            d["title"], d["statement"], d["quantifier"]["text"], ", ".join(d["anchors"]["files"]))
        plist = "; ".join("(%d) %s" % (i + 1, x.strip()) for i, x in enumerate(prevs.split(";")) if x.strip())
        open(out, "w").write(TMPL.format(wt=wt, prop=prop, prevs=plist))
        return 0
    return 1


if __name__ == "__main__":
    sys.exit(main())
