#!/usr/bin/env python3
"""Confirm a seeded change produced by a sub-agent and run the checks against it.

usage: seedtest.py <Cxx> <worktree> [checks...]      (default check: the property's own)

Steps (all in scratch copies outside /repo and /verif, removed afterwards):
  1. the patch applies to /repo HEAD and the tree builds; the unit suite passes with it
  2. demo.sh fails with the patch and passes without it
  3. each named check (quick tier) is run with VERIF_REPO pointing at the patched copy
Results are written to /verif/seeded/<id>/meta.json next to patch.diff and the demonstration."""
import json
import os
import shutil
import subprocess
import sys
import time

V = "/verif"


def sh(cmd, cwd=None, timeout=3600, env=None):
    p = subprocess.run(cmd, shell=True, cwd=cwd, stdout=subprocess.PIPE, stderr=subprocess.STDOUT, timeout=timeout, env=env)
    return p.returncode, p.stdout.decode("latin-1")


def build_and_test(d):
    rc, out = sh("cmake -G Ninja -S . -B _b -DCMAKE_BUILD_TYPE=RelWithDebInfo -DCMAKE_CXX_FLAGS=-Wno-error >/dev/null 2>&1 && "
                 "cmake --build _b -j 12 2>&1 | tail -5", cwd=d)
    if rc != 0:
        return False, "build failed: " + out[-800:]
    rc, out = sh("cd _b/tests/unit && timeout 900 ./UnitTests 2>&1 | tail -3", cwd=d)
    return "No errors detected" in out, out[-300:]


def main():
    pid, wt = sys.argv[1], sys.argv[2]
    checks = sys.argv[3:] or [pid]
    name = os.path.basename(wt.rstrip("/")).replace("wt-", "")
    bn = os.path.basename(sys.argv[2].rstrip("/"))
    import re
    mm = re.match(r"wt(\d*)-(C\d+)$", bn)
    if mm:
        sid = mm.group(2) + {"": "", "2": "b", "3": "c", "4": "d", "5": "e", "6": "f", "7": "g", "8": "h"}[mm.group(1)]
    else:
        sid = bn
    patch = os.path.join(wt, "seed.patch")
    if not os.path.isfile(patch) or os.path.getsize(patch) == 0:
        print("no seed.patch in", wt)
        return 1
    meta = {"property": pid, "id": sid, "ran": []}
    base = "/tmp/seedtest-%s" % sid
    shutil.rmtree(base, ignore_errors=True)
    os.makedirs(base)
    clean = os.path.join(base, "clean")
    pat = os.path.join(base, "patched")
    for d in (clean, pat):
        os.makedirs(d)
        sh("git -C /repo archive HEAD | tar -x -C %s && rm -rf %s/_build" % (d, d))
    rc, out = sh("patch -p1 < %s" % patch, cwd=pat)
    meta["patch_applies"] = rc == 0
    if rc != 0:
        print("patch does not apply:", out[-500:])
        meta["ran"].append("patch -p1: FAILED")
        return finish(meta, wt, base, False)
    ok, out = build_and_test(pat)
    meta["unit_suite_passes_with_change"] = ok
    meta["ran"].append("cmake build + tests/unit/UnitTests on patched copy: %s" % ("No errors detected" if ok else out))
    print("unit suite with change:", ok)
    okc, out = build_and_test(clean)
    print("unit suite without change:", okc)
    # demo: copy the demonstration files next to each tree (the agent's demo refers to its own worktree path)
    demo_res = {}
    for label, d in (("with_change", pat), ("without_change", clean)):
        for f in os.listdir(wt):
            p = os.path.join(wt, f)
            if f in ("seed.patch",) or f.startswith("_b") or f == "_build" or f == ".git":
                continue
            if os.path.isfile(p) and not os.path.exists(os.path.join(d, f)):
                shutil.copy(p, os.path.join(d, f))
            elif os.path.isdir(p) and not os.path.exists(os.path.join(d, f)):
                shutil.copytree(p, os.path.join(d, f))
        # rewrite absolute worktree paths in the demo to this copy
        demo = open(os.path.join(wt, "demo.sh")).read().replace(wt.rstrip("/"), d)
        open(os.path.join(d, "demo.sh"), "w").write(demo)
        for f in os.listdir(d):
            p = os.path.join(d, f)
            if os.path.isfile(p) and f != "demo.sh" and f.endswith((".sh", ".py", ".cpp", ".txt")):
                try:
                    t = open(p).read()
                    if wt.rstrip("/") in t:
                        open(p, "w").write(t.replace(wt.rstrip("/"), d))
                except UnicodeDecodeError:
                    pass
        rc, out = sh("timeout 300 bash demo.sh", cwd=d)
        demo_res[label] = rc
        print("demo", label, "rc =", rc, out[-200:].replace("\n", " | "))
    meta["demo_exit_with_change"] = demo_res["with_change"]
    meta["demo_exit_without_change"] = demo_res["without_change"]
    meta["ran"].append("bash demo.sh on patched copy: exit %s; on clean copy: exit %s" % (demo_res["with_change"], demo_res["without_change"]))
    confirmed = ok and demo_res["with_change"] != 0 and demo_res["without_change"] == 0
    meta["confirmed"] = confirmed
    # run the checks against the patched copy
    shutil.rmtree(os.path.join(pat, "_b"), ignore_errors=True)
    results = {}
    for c in checks:
        t0 = time.time()
        env = dict(os.environ)
        env["VERIF_REPO"] = pat
        rc, out = sh("python3 vcheck.py %s quick 2>&1 | tail -30" % c, cwd=V, env=env, timeout=7200)
        keys = sorted(set(l.strip()[4:] for l in out.splitlines() if l.strip().startswith("key=")))
        viol = [l for l in out.splitlines() if l.startswith("VIOLATION")]
        last = out.strip().splitlines()[-1] if out.strip() else ""
        results[c] = {"exit": 1 if viol else (0 if " held on " in last else 2), "keys": keys, "summary": last, "seconds": round(time.time() - t0)}
        print("check", c, results[c])
        meta["ran"].append("VERIF_REPO=<patched copy> python3 vcheck.py %s quick: %s" % (c, last))
    meta["checks"] = results
    import hashlib
    tag = "alt" + hashlib.sha256(pat.encode()).hexdigest()[:6]
    sh("rm -rf %s/build/%s-* %s/build/.lock-%s-*" % (V, tag, V, tag))
    sh("git -C %s checkout -- evidence" % V)
    return finish(meta, wt, base, confirmed)


def finish(meta, wt, base, keep):
    sid = meta["id"]
    out = os.path.join(V, "seeded", sid)
    if keep:
        shutil.rmtree(out, ignore_errors=True)
        os.makedirs(out)
        shutil.copy(os.path.join(wt, "seed.patch"), os.path.join(out, "patch.diff"))
        for f in os.listdir(wt):
            p = os.path.join(wt, f)
            if os.path.isfile(p) and f not in ("seed.patch",) and os.path.getsize(p) < 200000 and not f.startswith("."):
                tracked = subprocess.run(["git", "-C", wt, "ls-files", "--error-unmatch", f], stdout=subprocess.DEVNULL, stderr=subprocess.DEVNULL).returncode == 0
                if not tracked:
                    shutil.copy(p, os.path.join(out, f))
        for f in os.listdir(wt):
            p = os.path.join(wt, f)
            if os.path.isdir(p) and f.startswith(("demo_in", "demo_files")):
                shutil.copytree(p, os.path.join(out, f), ignore=shutil.ignore_patterns("*.bin", "*.o", "hostmem", "*.out"))
        try:
            meta["needs"] = open(os.path.join(wt, "seed.md")).read()[:3000]
        except OSError:
            pass
        json.dump(meta, open(os.path.join(out, "meta.json"), "w"), indent=1)
        print("kept as", out)
    else:
        print("NOT kept:", json.dumps(meta)[:600])
    shutil.rmtree(base, ignore_errors=True)
    return 0


if __name__ == "__main__":
    sys.exit(main())
