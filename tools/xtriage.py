#!/usr/bin/env python3
"""Triage helper: run a family of the C01 workload and print failing tags grouped by code."""
import collections
import random
import sys
sys.path.insert(0, "/verif")
from lib import common, xgen, xref, xrun
from checks import c01

def main():
    fam = sys.argv[1]
    exe = xrun.build()
    rnd = random.Random(1)
    if fam == "shape":
        items = [(t, p, b"", {}) for t, p in xgen.shape_matrix(sys.argv[2] if len(sys.argv) > 2 else "quick", rnd)]
    elif fam == "callconv":
        items = [(t, p, b"", {}) for t, p in xgen.callconv_matrix(rnd, "quick")]
    elif fam == "shipped":
        items = c01.shipped_items()
    jobs = [("items", ch, exe) for ch in c01.chunks(items, 16)]
    outs = common.pmap(c01.worker, jobs)
    by = collections.defaultdict(list)
    dropped = collections.Counter()
    for o in outs:
        for code, rep in o["viol"]:
            by[code].append(rep)
        for k, n in o["dropped"].items():
            dropped[k] += n
    print("dropped", dict(dropped))
    for code, reps in by.items():
        print("==", code, len(reps))
        tags = collections.Counter()
        for r in reps:
            parts = r["tag"].split(":")
            tags[":".join(parts[:2])] += 1
        print(dict(tags))
        for r in reps[:int(sys.argv[3]) if len(sys.argv) > 3 else 6]:
            print("   ", r["tag"], "|", r["why"][:150])

main()
