#!/usr/bin/env python3
"""Reduce a failing C01 replay (AST-level delta debugging): keeps the reference 'defined' and the same divergence code.
usage: xreduce.py <replay.json> [check-module]"""
import copy
import json
import sys
sys.path.insert(0, "/verif")
from lib import common, xref, xrun
from checks import c01

exe = xrun.build()


def test(prog, console, files, code):
    try:
        recs = xrun.evaluate([("r", prog, console, files)], exe)
    except Exception:
        return False
    status, errs = c01.classify(recs[0])
    return status == "compared" and bool(errs) and errs[0][0] == code


def sub_exprs(e):
    k = e[0]
    if k == "un":
        return [e[2]]
    if k == "bin":
        return [e[2], e[3]]
    if k == "sub":
        return [e[2]]
    if k in ("call", "sys"):
        return list(e[2])
    return []


def expr_variants(e):
    """smaller replacements for expression e"""
    out = []
    for s in sub_exprs(e):
        out.append(s)
    if e[0] not in ("num",):
        out += [("num", 0), ("num", 1)]
    k = e[0]
    if k == "un":
        for v in expr_variants(e[2]):
            out.append(("un", e[1], v))
    elif k == "bin":
        for v in expr_variants(e[2]):
            out.append(("bin", e[1], v, e[3]))
        for v in expr_variants(e[3]):
            out.append(("bin", e[1], e[2], v))
    elif k == "sub":
        for v in expr_variants(e[2]):
            out.append(("sub", e[1], v))
    elif k in ("call", "sys"):
        for i, a in enumerate(e[2]):
            for v in expr_variants(a):
                out.append((k, e[1], e[2][:i] + [v] + e[2][i + 1:]))
    return out


def stmt_variants(s):
    k = s[0]
    out = []
    if k != "skip":
        out.append(("skip",))
    if k == "seq":
        for i in range(len(s[1])):
            rest = s[1][:i] + s[1][i + 1:]
            out.append(("seq", rest) if len(rest) > 1 else (rest[0] if rest else ("skip",)))
        for i, x in enumerate(s[1]):
            for v in stmt_variants(x):
                out.append(("seq", s[1][:i] + [v] + s[1][i + 1:]))
    elif k == "if":
        out += [s[2], s[3]]
        for v in expr_variants(s[1]):
            out.append(("if", v, s[2], s[3]))
        for v in stmt_variants(s[2]):
            out.append(("if", s[1], v, s[3]))
        for v in stmt_variants(s[3]):
            out.append(("if", s[1], s[2], v))
    elif k == "while":
        out.append(s[2])
        for v in stmt_variants(s[2]):
            out.append(("while", s[1], v))
        for v in expr_variants(s[1]):
            out.append(("while", v, s[2]))
    elif k == "ass":
        for v in expr_variants(s[2]):
            out.append(("ass", s[1], v))
        if s[1][0] == "sub":
            for v in expr_variants(s[1][2]):
                out.append(("ass", ("sub", s[1][1], v), s[2]))
    elif k == "ret":
        for v in expr_variants(s[1]):
            out.append(("ret", v))
    elif k in ("callst", "sysst"):
        for i, a in enumerate(s[2]):
            for v in expr_variants(a):
                out.append((k, s[1], s[2][:i] + [v] + s[2][i + 1:]))
    return out


def prog_variants(p):
    for i in range(len(p["procs"])):
        if p["procs"][i]["name"] != "main":
            q = copy.deepcopy(p)
            del q["procs"][i]
            yield q
    for i in range(len(p["globals"])):
        q = copy.deepcopy(p)
        del q["globals"][i]
        yield q
    for i, pr in enumerate(p["procs"]):
        for j in range(len(pr["locals"])):
            q = copy.deepcopy(p)
            del q["procs"][i]["locals"][j]
            yield q
        for v in stmt_variants(pr["body"]):
            q = copy.deepcopy(p)
            q["procs"][i]["body"] = v
            yield q


def size(p):
    return len(xref.render_program(p))


def main():
    rep = json.load(open(sys.argv[1]))
    code = rep["key"]
    case = rep["case"]
    prog = xref.parse(case["source"])
    console = bytes.fromhex(case["input_hex"])
    files = {int(k): bytes.fromhex(x) for k, x in case.get("files", {}).items()}
    if not test(prog, console, files, code):
        print("does not reproduce with code", code)
        return
    improved = True
    trials = 0
    while improved and trials < 6000:
        improved = False
        for q in prog_variants(prog):
            trials += 1
            if size(q) < size(prog) and test(q, console, files, code):
                prog = q
                improved = True
                break
    print("# reduced after %d trials; key=%s input=%r" % (trials, code, console))
    print(xref.render_program(prog))
    recs = xrun.evaluate([("r", prog, console, files)], exe)
    print("#", c01.classify(recs[0]))


main()
