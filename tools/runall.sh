#!/bin/bash
# Run every registered check at the given tier (default quick) and summarise.
tier=${1:-quick}
cd "$(dirname "$0")/.."
for c in C01 C02 C03 C04 C05 C06 C07 C08 C09 C10 C11 C12 C13 C14 C15 C16 C17; do
  s=$(date +%s)
  out=$(python3 vcheck.py $c $tier 2>&1 | tail -1)
  rc=$?
  e=$(date +%s)
  echo "$c rc=$rc $((e-s))s  $out"
done
