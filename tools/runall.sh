#!/bin/bash
# Run every registered check at the given tier (default quick) and summarise.
tier=${1:-quick}
cd "$(dirname "$0")/.."
tmp=$(mktemp)
for c in C01 C02 C03 C04 C05 C06 C07 C08 C09 C10 C11 C12 C13 C14 C15 C16 C17; do
  s=$(date +%s)
  python3 vcheck.py $c $tier > "$tmp" 2>&1
  rc=$?
  e=$(date +%s)
  echo "$c rc=$rc $((e-s))s  $(tail -1 "$tmp")"
  grep -E "^(VIOLATION|KNOWN-FINDING)" "$tmp" | head -5
done
rm -f "$tmp"
