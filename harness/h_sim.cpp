// C12 harness: hexsim::Processor constructed in deliberately dirty storage.
//   h_sim cases <in> <out>
// fields: file (image), input, prefile/preinput (an image simulated first in the same process), fin<k> (contents of simin<k>), fill (0..255 byte pattern, or 256 = PRNG), fillseed, maxcycles (0 = none), trace (0/1)
// The Processor is placement-constructed in a buffer pre-filled with the pattern and run in
// lock-step with the reference model, whose memory is zero outside the image as in hexb.pdf.
#include <cstdio>
#include <cstdlib>
#include <fstream>
#include <memory>
#include <new>
#include <sstream>
#include <unistd.h>

#include "hexsim.hpp"
#include "refisa.hpp"
#include "caseio.hpp"
#include "prng.hpp"

namespace {
using refisa::MEM_WORDS;

struct RbwMonitor : refisa::Monitor {
  std::vector<uint8_t> written;
  uint32_t imageWords = 0;
  uint64_t readsBeforeWrite = 0;
  RbwMonitor() : written(MEM_WORDS, 0) {}
  void onLoad(uint32_t w, uint32_t) override { if (w >= imageWords && !written[w]) readsBeforeWrite++; }
  void onStore(uint32_t w, uint32_t, uint32_t) override { written[w] = 1; }
};

std::string simCase(const vio::Case &c) {
  vio::Json j;
  { std::ofstream f("s.bin", std::ios::binary); f << c.str("file"); }
  for (int k = 0; k < 8; k++) {
    unlink(("simout" + std::to_string(k)).c_str());
    unlink(("simin" + std::to_string(k)).c_str());
    std::string key = "fin" + std::to_string(k);
    if (c.has(key.c_str())) { std::ofstream f("simin" + std::to_string(k), std::ios::binary); f << c.str(key.c_str()); }
  }
  if (c.has("prefile")) {
    // an earlier simulation in the same process (its own Processor object, run to its end and destroyed)
    { std::ofstream f("pre.bin", std::ios::binary); f << c.str("prefile"); }
    std::istringstream pin(c.str("preinput"));
    std::ostringstream pout;
    try {
      auto pre = std::make_unique<hexsim::Processor>(pin, pout, (size_t)6000000);
      pre->load("pre.bin");
      pre->run();
    } catch (...) {}
    unlink("pre.bin");
    for (int k = 0; k < 8; k++) unlink(("simout" + std::to_string(k)).c_str());
  }
  size_t sz = sizeof(hexsim::Processor);
  unsigned char *buf = (unsigned char *)aligned_alloc(64, (sz + 63) & ~(size_t)63);
  long fill = c.num("fill", 0);
  if (fill >= 0 && fill < 256) memset(buf, (int)fill, sz);
  else { Prng r((uint64_t)c.num("fillseed", 1), 7, 0); for (size_t i = 0; i < sz; i++) buf[i] = (unsigned char)r.u32(); }
  std::istringstream in(c.str("input"));
  std::ostringstream out;
  size_t maxCycles = (size_t)c.num("maxcycles", 0);
  hexsim::Processor *p = new (buf) hexsim::Processor(in, out, maxCycles);
  p->setTracing(c.num("trace", 0) != 0);
  p->load("s.bin");
  refisa::Machine ref; refisa::World world; RbwMonitor mon;
  ref.world = &world; ref.mon = &mon;
  world.consoleIn = c.str("input");
  for (int k = 0; k < 8; k++) {
    std::string key = "fin" + std::to_string(k);
    if (c.has(key.c_str())) { world.fileIn[k] = c.str(key.c_str()); world.fileInPresent[k] = true; }
  }
  long words = ref.loadImage(c.str("file"), true);
  mon.imageWords = words > 0 ? (uint32_t)words : 0;
  std::string ended, mismatch;
  uint64_t cycles = 0;
  std::vector<std::string> events;
  refisa::Pre pre = ref.classify();
  bool stop = words < 1 || pre.cls != refisa::DEFINED;
  if (stop) ended = "left-range";
  uint64_t hard = (uint64_t)c.num("hardlimit", 3000000);
  p->verifObserver = [&](hexsim::Processor &q) -> bool {
    uint32_t a0 = ref.areg;
    ref.step(); cycles++;
    if (q.verifGetPC() != ref.pc || q.verifGetAreg() != ref.areg || q.verifGetBreg() != ref.breg || q.verifGetOreg() != ref.oreg) {
      vio::Json m; m.unum("cycle", cycles).unum("inst", pre.inst).unum("ref_areg", ref.areg).unum("sim_areg", q.verifGetAreg())
        .unum("ref_breg", ref.breg).unum("sim_breg", q.verifGetBreg()).unum("ref_pc", ref.pc).unum("sim_pc", q.verifGetPC());
      if (pre.nLoads) m.unum("load_word", pre.loads[0]);
      mismatch = m.done(); ended = "mismatch"; return false;
    }
    if (pre.isSvc) {
      uint32_t sp = q.verifMemory()[1];
      vio::Json e; e.unum("n", a0).unum("a0", q.verifMemory()[sp + 2]);
      if (a0 == 1) e.unum("a1", q.verifMemory()[sp + 3]);
      if (a0 == 2) e.unum("r", q.verifMemory()[sp + 1]);
      if (events.size() < 5000) events.push_back(e.done());
    }
    if (!ref.running) { ended = "exit"; return true; }
    if (cycles >= hard) { ended = "hardlimit"; return false; }
    pre = ref.classify();
    if (pre.cls != refisa::DEFINED) { ended = "left-range"; return false; }
    return true;
  };
  int rv = 0;
  std::string thrown;
  if (!stop) { try { rv = p->run(); } catch (std::exception &e) { thrown = e.what(); } }
  if (ended.empty()) ended = "maxcycles";
  size_t consumed = (in.fail() || in.eof()) ? c.str("input").size() : (size_t)in.tellg();
  p->~Processor();
  free(buf);
  j.str("ended", ended).num("run_return", rv).unum("cycles", cycles).str("thrown", thrown)
   .hex("console", out.str().substr(0, 2048)).unum("console_bytes", out.str().size())
   .unum("consumed", consumed).unum("reads_before_write", mon.readsBeforeWrite).raw("events", vio::jsonArray(events));
  if (!mismatch.empty()) j.raw("mismatch", mismatch);
  unlink("s.bin");
  return j.done();
}
} // namespace

int main(int argc, char **argv) {
  if (argc >= 2 && !strcmp(argv[1], "cases")) return vio::mainLoop(argc, argv, 60000, simCase);
  fprintf(stderr, "usage: h_sim cases <in> <out>\n");
  return 3;
}
