// Case file reader, JSON line writer and the fork-per-case runner (E5).
#ifndef VERIF_CASEIO_HPP
#define VERIF_CASEIO_HPP

#include <cxxabi.h>
#include <typeinfo>
#include <cerrno>
#include <csignal>
#include <cstdint>
#include <cstdio>
#include <cstdlib>
#include <cstring>
#include <functional>
#include <map>
#include <string>
#include <vector>
#include <poll.h>
#include <sys/resource.h>
#include <sys/time.h>
#include <sys/types.h>
#include <sys/wait.h>
#include <unistd.h>

namespace vio {

struct Case {
  std::string id;
  std::map<std::string, std::string> f;
  bool has(const char *k) const { return f.count(k) != 0; }
  const std::string &str(const char *k) const {
    static const std::string empty;
    auto it = f.find(k);
    return it == f.end() ? empty : it->second;
  }
  long long num(const char *k, long long dflt = 0) const {
    auto it = f.find(k);
    return it == f.end() ? dflt : std::strtoll(it->second.c_str(), nullptr, 0);
  }
};

inline bool readLine(FILE *fp, std::string &line) {
  line.clear();
  int c;
  while ((c = fgetc(fp)) != EOF) {
    if (c == '\n') return true;
    line.push_back((char)c);
  }
  return !line.empty();
}

inline std::vector<Case> readCases(const char *path) {
  FILE *fp = fopen(path, "rb");
  if (!fp) { perror(path); exit(3); }
  std::string line;
  readLine(fp, line);
  size_t n = std::strtoul(line.c_str(), nullptr, 10);
  std::vector<Case> cases;
  cases.reserve(n);
  for (size_t i = 0; i < n; i++) {
    if (!readLine(fp, line) || line.size() < 2 || line[0] != 'C') {
      fprintf(stderr, "bad case header: %s\n", line.c_str()); exit(3);
    }
    Case c;
    char idbuf[256]; int nf = 0;
    if (sscanf(line.c_str(), "C %255s %d", idbuf, &nf) != 2) { fprintf(stderr, "bad case line\n"); exit(3); }
    c.id = idbuf;
    for (int k = 0; k < nf; k++) {
      readLine(fp, line);
      char name[128]; unsigned long len = 0;
      if (sscanf(line.c_str(), "%127s %lu", name, &len) != 2) { fprintf(stderr, "bad field line\n"); exit(3); }
      std::string v(len, '\0');
      if (len && fread(&v[0], 1, len, fp) != len) { fprintf(stderr, "short field\n"); exit(3); }
      fgetc(fp); // trailing newline
      c.f[name] = std::move(v);
    }
    cases.push_back(std::move(c));
  }
  fclose(fp);
  return cases;
}

// ---------------------------------------------------------------- JSON out
struct Json {
  std::string s;
  bool first = true;
  Json() { s = "{"; }
  void key(const char *k) {
    if (!first) s += ",";
    first = false;
    s += "\""; s += k; s += "\":";
  }
  Json &num(const char *k, long long v) { key(k); s += std::to_string(v); return *this; }
  Json &unum(const char *k, unsigned long long v) { key(k); s += std::to_string(v); return *this; }
  Json &boolean(const char *k, bool v) { key(k); s += v ? "true" : "false"; return *this; }
  Json &raw(const char *k, const std::string &v) { key(k); s += v; return *this; }
  static std::string esc(const std::string &v) {
    std::string o = "\"";
    char buf[8];
    for (unsigned char c : v) {
      if (c == '"' || c == '\\') { o += '\\'; o += (char)c; }
      else if (c < 0x20 || c >= 0x7f) { snprintf(buf, sizeof buf, "\\u%04x", c); o += buf; }
      else o += (char)c;
    }
    o += "\"";
    return o;
  }
  Json &str(const char *k, const std::string &v) { key(k); s += esc(v); return *this; }
  static std::string hexOf(const std::string &v) {
    static const char *d = "0123456789abcdef";
    std::string o; o.reserve(v.size() * 2);
    for (unsigned char c : v) { o += d[c >> 4]; o += d[c & 15]; }
    return o;
  }
  Json &hex(const char *k, const std::string &v) { key(k); s += "\""; s += hexOf(v); s += "\""; return *this; }
  std::string done() const { return s + "}"; }
};

inline std::string jsonArray(const std::vector<std::string> &items) {
  std::string s = "[";
  for (size_t i = 0; i < items.size(); i++) { if (i) s += ","; s += items[i]; }
  return s + "]";
}
inline std::string jsonNumArray(const std::vector<long long> &items) {
  std::string s = "[";
  for (size_t i = 0; i < items.size(); i++) { if (i) s += ","; s += std::to_string(items[i]); }
  return s + "]";
}

// ---------------------------------------------------------------- fork runner
struct ChildResult {
  std::string status;   // ok | exit N | signal N | timeout
  std::string out;      // what the child wrote to its result pipe
  std::string err;      // what the child wrote to fd 2 (sanitizer reports, asserts)
};

// Run fn in a forked child.  fn returns the JSON text of its result.
inline ChildResult runForked(const std::function<std::string()> &fn, int timeoutMs,
                             size_t maxErr = 1 << 16) {
  int po[2], pe[2];
  if (pipe(po) || pipe(pe)) { perror("pipe"); exit(3); }
  fflush(nullptr);
  pid_t pid = fork();
  if (pid < 0) { perror("fork"); exit(3); }
  if (pid == 0) {
    close(po[0]); close(pe[0]);
    dup2(pe[1], 2);
    close(pe[1]);
    struct rlimit rl = {0, 0};
    setrlimit(RLIMIT_CORE, &rl);
    std::string r = fn();
    size_t off = 0;
    while (off < r.size()) {
      ssize_t w = write(po[1], r.data() + off, r.size() - off);
      if (w <= 0) break;
      off += (size_t)w;
    }
    fflush(nullptr);
    _exit(0);
  }
  close(po[1]); close(pe[1]);
  ChildResult res;
  struct pollfd fds[2] = {{po[0], POLLIN, 0}, {pe[0], POLLIN, 0}};
  bool open0 = true, open1 = true, timedOut = false;
  struct timeval t0; gettimeofday(&t0, nullptr);
  char buf[65536];
  while (open0 || open1) {
    struct timeval now; gettimeofday(&now, nullptr);
    long el = (now.tv_sec - t0.tv_sec) * 1000L + (now.tv_usec - t0.tv_usec) / 1000L;
    if (el >= timeoutMs) { timedOut = true; break; }
    fds[0].fd = open0 ? po[0] : -1;
    fds[1].fd = open1 ? pe[0] : -1;
    int pr = poll(fds, 2, (int)(timeoutMs - el));
    if (pr < 0) { if (errno == EINTR) continue; break; }
    if (pr == 0) { timedOut = true; break; }
    if (open0 && (fds[0].revents & (POLLIN | POLLHUP | POLLERR))) {
      ssize_t r = read(po[0], buf, sizeof buf);
      if (r <= 0) open0 = false; else res.out.append(buf, (size_t)r);
    }
    if (open1 && (fds[1].revents & (POLLIN | POLLHUP | POLLERR))) {
      ssize_t r = read(pe[0], buf, sizeof buf);
      if (r <= 0) open1 = false;
      else if (res.err.size() < maxErr) res.err.append(buf, (size_t)r);
    }
  }
  if (timedOut) kill(pid, SIGKILL);
  close(po[0]); close(pe[0]);
  int st = 0;
  while (waitpid(pid, &st, 0) < 0 && errno == EINTR) {}
  if (timedOut) res.status = "timeout";
  else if (WIFSIGNALED(st)) res.status = "signal " + std::to_string(WTERMSIG(st));
  else if (WIFEXITED(st) && WEXITSTATUS(st) != 0) res.status = "exit " + std::to_string(WEXITSTATUS(st));
  else res.status = "ok";
  return res;
}

// Standard main loop: for each case run fn forked, write one JSON line.
inline int mainLoop(int argc, char **argv, int timeoutMs,
                    const std::function<std::string(const Case &)> &fn) {
  if (argc < 3) { fprintf(stderr, "usage: %s [opts] <cases> <out>\n", argv[0]); return 3; }
  auto cases = readCases(argv[argc - 2]);
  FILE *out = fopen(argv[argc - 1], "wb");
  if (!out) { perror(argv[argc - 1]); return 3; }
  // A tree that hangs on a large share of the inputs would otherwise cost timeout x cases: after a number of
  // watchdog firings the remaining cases of this worker are reported as "skipped" (counted, never judged).
  int maxTimeouts = getenv("VERIF_MAX_TIMEOUTS") ? atoi(getenv("VERIF_MAX_TIMEOUTS")) : 12;
  if (getenv("VERIF_CASE_TIMEOUT_MS") && atoi(getenv("VERIF_CASE_TIMEOUT_MS")) > 0) timeoutMs = atoi(getenv("VERIF_CASE_TIMEOUT_MS"));
  int timeouts = 0;
  for (auto &c : cases) {
    if (timeouts >= maxTimeouts) {
      Json j; j.str("id", c.id).str("status", "skipped").raw("out", "null").str("err", "");
      fputs(j.done().c_str(), out); fputc('\n', out);
      continue;
    }
    ChildResult r = runForked([&]() { return fn(c); }, timeoutMs);
    if (r.status == "timeout") timeouts++;
    Json j;
    j.str("id", c.id).str("status", r.status);
    if (!r.out.empty() && r.out[0] == '{') j.raw("out", r.out); else j.raw("out", "null");
    j.str("err", r.err);
    fputs(j.done().c_str(), out);
    fputc('\n', out);
  }
  fclose(out);
  return 0;
}

// Name of the dynamic class of an exception object (e.g. "xcmp::CharConstError").
template <typename T> inline std::string demangled(const T &obj) {
  int st = 0;
  char *n = abi::__cxa_demangle(typeid(obj).name(), nullptr, nullptr, &st);
  std::string r = (st == 0 && n) ? n : typeid(obj).name();
  free(n);
  return r;
}

inline void le32(std::string &s, uint32_t v) {
  for (int i = 0; i < 4; i++) s.push_back((char)((v >> (8 * i)) & 0xFF));
}

} // namespace vio

#endif
