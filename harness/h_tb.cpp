// C13/C06 harness: links the repository's hextb.cpp (its own load(), handleSyscall()
// and run()) against a Vhex_pkg model built from the working tree, so that an
// adversarial power-on state can be planted before the testbench starts.
//
//   h_tb cases <in> <out>
// case fields:
//   file       binary image file contents
//   input      stdin bytes
//   seed       Verilator randomisation seed
//   plant      none | svc | store | dirty    (adversarial power-on state, see below)
//   p0..p3     parameters of the plant
//   maxcycles  cycle bound for run() (always given: a corrupted image may never exit)
//   inspect    1: report registers and image words after the run (used with a bound just past reset)
#include <fstream>
#include <iostream>
#include <sstream>

#define main hextb_cli_main
#include "hextb.cpp"
#undef main

#include <verilated_sym_props.h>
#include "caseio.hpp"

namespace {

void *findVar(VerilatedContext *ctx, const char *scope, const char *var) {
  const VerilatedScope *s = ctx->scopeFind(scope);
  if (!s) return nullptr;
  VerilatedVar *v = s->varFind(var);
  return v ? v->datap() : nullptr;
}

std::string tbCase(const vio::Case &c) {
  vio::Json j;
  { std::ofstream f("tb.bin", std::ios::binary); f << c.str("file"); }
  std::istringstream in(c.str("input"));
  std::ostringstream out;
  auto *oldIn = std::cin.rdbuf(in.rdbuf());
  auto *oldOut = std::cout.rdbuf(out.rdbuf());
  std::string thrown;
  int status = -1;
  std::vector<long long> regsAfter;
  std::string imageAfter;
  bool plantOk = true;
  {
    const std::unique_ptr<VerilatedContext> contextp{new VerilatedContext};
    contextp->debug(0);
    contextp->randReset(2);
    contextp->randSeed((int)c.num("seed", 1));
    contextp->threads(1);
    { const char *av[] = {"hextb"}; contextp->commandArgs(1, av); }
    const std::unique_ptr<Vhex_pkg> top{new Vhex_pkg{contextp.get(), "TOP"}};
    uint32_t *pc = (uint32_t *)findVar(contextp.get(), "TOP.hex.u_processor", "pc_q");
    uint32_t *areg = (uint32_t *)findVar(contextp.get(), "TOP.hex.u_processor", "areg_q");
    uint32_t *breg = (uint32_t *)findVar(contextp.get(), "TOP.hex.u_processor", "breg_q");
    uint32_t *oreg = (uint32_t *)findVar(contextp.get(), "TOP.hex.u_processor", "oreg_q");
    uint32_t *mem = (uint32_t *)findVar(contextp.get(), "TOP.hex.u_memory", "memory_q");
    if (!pc || !areg || !breg || !oreg || !mem) { plantOk = false; }
    const std::string &plant = c.str("plant");
    uint32_t p0 = (uint32_t)c.num("p0"), p1 = (uint32_t)c.num("p1"), p2 = (uint32_t)c.num("p2"), p3 = (uint32_t)c.num("p3");
    if (plantOk && plant != "none" && !plant.empty()) {
      // planted state lives outside the image: a scratch word far above it holds the instruction bytes
      uint32_t scratchWord = 300000 + (p3 & 0xFFFF);
      if (plant == "svc") {
        // a harmless byte under pc, OPR SVC right after it: the testbench samples o_syscall_valid after the edge
        mem[scratchWord] = 0xD3D33030u | ((p1 & 0xF) << 0);       // LDAC n ; LDAC 0 ; OPR SVC ; OPR SVC
        *pc = scratchWord * 4 + 1; *areg = p0 & 3; *breg = p2; *oreg = 0;
        mem[1] = p2;                                               // stack pointer word (overwritten by load())
      } else if (plant == "store") {
        // STAM k / STAI k aimed at image word p0
        if (p1 & 1) { mem[scratchWord] = 0x00000020u | (p0 & 0xF); *oreg = p0 & ~0xFu; *breg = p2; }
        else { mem[scratchWord] = 0x00000080u | (p0 & 0xF); *oreg = 0; *breg = p0 & ~0xFu; }
        *pc = scratchWord * 4; *areg = 0xDEAD0000u | (p2 & 0xFFFF);
      } else if (plant == "dirty") {
        // arrive at reset with dirty oreg/breg/pc inside the image
        *pc = p0; *areg = p1; *breg = p2; *oreg = p3;
      }
    }
    try {
      load("tb.bin", top);
      status = run(contextp, top, false, (size_t)c.num("maxcycles", 2000000));
    } catch (std::exception &e) {
      thrown = e.what();
    }
    if (c.num("inspect") && plantOk) {
      regsAfter = {(long long)*pc, (long long)*areg, (long long)*breg, (long long)*oreg};
      size_t n = c.str("file").size() >= 4 ? (c.str("file").size() - 4) : 0;
      uint32_t words = 0;
      if (c.str("file").size() >= 4) memcpy(&words, c.str("file").data(), 4);
      n = std::min<size_t>(n, (size_t)words * 4);
      imageAfter.assign((const char *)mem, n);
    }
  }
  std::cin.rdbuf(oldIn);
  std::cout.rdbuf(oldOut);
  size_t consumed = (in.fail() || in.eof()) ? c.str("input").size() : (size_t)in.tellg();
  j.boolean("plant_ok", plantOk).num("status", status).str("thrown", thrown).hex("stdout", out.str()).unum("consumed", consumed);
  if (c.num("inspect")) j.raw("regs_after", vio::jsonNumArray(regsAfter)).hex("image_after", imageAfter);
  unlink("tb.bin");
  return j.done();
}

} // namespace

int main(int argc, char **argv) {
  if (argc >= 2 && !strcmp(argv[1], "cases")) {
    // the model's teardown can block on worker-pool locks: each child leaves through _exit in runForked
    return vio::mainLoop(argc, argv, 60000, tbCase);
  }
  fprintf(stderr, "usage: h_tb cases <in> <out>\n");
  return 3;
}
