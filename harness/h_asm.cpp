// Assembler harness.
//
//  h_asm cases <in> <out>              fork-per-case: assemble `src`, report image/listing/diagnostic
//  h_asm c04 <level> <mnemonic> <spelling> <lo> <hi> <stride> <out.json>
//        level    = text | dir
//        spelling = u (unsigned decimal) | s (signed decimal: -n for negative values) | m (-n for every value, n = -v mod 2^32) | z, y (as u and m with one to four leading zeros)
//        assembles every value v = lo, lo+stride, ... < hi (as 32-bit patterns) in batches
//        and decode-walks the emitted image with the ISA's own prefix rule.
#include <cstdio>
#include <cstdlib>
#include <fstream>
#include <sstream>
#include <string>
#include <vector>
#include <unistd.h>

#include "hexasm.hpp"
#include "caseio.hpp"

namespace {

struct LayoutRunaway { size_t pass; };
size_t g_passes = 0;
void layoutHook(size_t pass, size_t n) {
  g_passes = pass;
  if (pass > 8 * n + 64) throw LayoutRunaway{pass};
}

std::string slurp(const std::string &p) {
  std::ifstream f(p, std::ios::binary);
  std::stringstream ss; ss << f.rdbuf(); return ss.str();
}

std::string asmCase(const vio::Case &c) {
  vio::Json j;
  hexverif::layoutIteration = layoutHook;
  g_passes = 0;
  std::string outName = "asm_out.bin";
  unlink(outName.c_str());
  // C11: unrelated assemblies earlier in the same process; with the field `reuse` through the same lexer and parser
  hexasm::Lexer lexer;
  hexasm::Parser parser(lexer);
  bool reuse = c.has("reuse");
  for (int k = 0; k < 64; k++) {
    std::string key = "pre" + std::to_string(k);
    if (!c.has(key.c_str())) break;
    try {
      hexasm::Lexer l0; hexasm::Parser p0(l0);
      hexasm::Lexer &lx = reuse ? lexer : l0;
      hexasm::Parser &px = reuse ? parser : p0;
      lx.loadBuffer(c.str(key.c_str()));
      auto prog0 = px.parseProgram();
      hexasm::CodeGen cg0(prog0);
      std::ostringstream os0; cg0.emitProgramBin(os0);
    } catch (...) {}
  }
  try {
    lexer.loadBuffer(c.str("src"));
    auto program = parser.parseProgram();
    size_t ndir = program.size();
    hexasm::CodeGen codeGen(program);
    std::ostringstream listing;
    codeGen.emitProgramText(listing);
    codeGen.emitBin(outName);
    std::string file = slurp(outName);
    j.boolean("ok", true).hex("file", file).str("listing", listing.str()).num("passes", (long long)g_passes)
     .num("ndir", (long long)ndir);
    // a second emission of the same CodeGen must give the same image bytes
    std::ostringstream again;
    codeGen.emitProgramBin(again);
    j.boolean("reemit_same", file.size() >= 4 + again.str().size() &&
              file.compare(4, again.str().size(), again.str()) == 0);
  } catch (const hexutil::Error &e) {
    j.boolean("ok", false).str("errtype", "Error").str("err", e.what()).boolean("located", e.hasLocation()).str("errclass", vio::demangled(e));
    j.boolean("wrote", access(outName.c_str(), F_OK) == 0);
  } catch (const std::exception &e) {
    j.boolean("ok", false).str("errtype", "std::exception").str("err", e.what()).boolean("located", false);
    j.boolean("wrote", access(outName.c_str(), F_OK) == 0);
  } catch (const LayoutRunaway &r) {
    j.boolean("ok", false).str("errtype", "layout-runaway").str("err", "layout did not converge").num("passes", (long long)r.pass);
  } catch (...) {
    j.boolean("ok", false).str("errtype", "non-std-exception").str("err", "?");
  }
  unlink(outName.c_str());
  return j.done();
}

// ------------------------------------------------------------------ C04
struct C04Stats {
  uint64_t values = 0, bad = 0;
  uint64_t chainLen[10] = {};
  std::vector<std::string> badList, samples;
};

const char *MNEMS[12] = {"LDAM", "LDBM", "STAM", "LDAC", "LDBC", "LDAP", "LDAI", "LDBI", "STAI", "BR", "BRZ", "BRN"};
const unsigned MOPC[12] = {0, 1, 2, 3, 4, 5, 6, 7, 8, 9, 0xA, 0xB};
const hexasm::Token MTOK[12] = {hexasm::Token::LDAM, hexasm::Token::LDBM, hexasm::Token::STAM, hexasm::Token::LDAC,
  hexasm::Token::LDBC, hexasm::Token::LDAP, hexasm::Token::LDAI, hexasm::Token::LDBI, hexasm::Token::STAI,
  hexasm::Token::BR, hexasm::Token::BRZ, hexasm::Token::BRN};

std::string spell(uint32_t v, char spelling) {
  if (spelling == 's' && (int32_t)v < 0) return "-" + std::to_string((uint64_t)0x100000000ull - v);
  if (spelling == 'm') return "-" + std::to_string(((uint64_t)0x100000000ull - v) & 0xFFFFFFFFull);   // every value as -n, n < 2^32
  // the same two written forms with one to four leading zeros (still decimal literals: 0100 is one hundred)
  if (spelling == 'z') return std::string(1 + ((v * 2654435761u) >> 30), '0') + std::to_string(v);
  if (spelling == 'y') return "-" + std::string(1 + ((v * 2654435761u) >> 30), '0') + std::to_string(((uint64_t)0x100000000ull - v) & 0xFFFFFFFFull);
  return std::to_string(v);
}

void c04Batch(int m, char spelling, bool text, const std::vector<uint32_t> &vals, C04Stats &st) {
  std::string image;
  std::string failure;
  try {
    std::vector<std::unique_ptr<hexasm::Directive>> program;
    hexasm::Lexer lexer;
    hexasm::Parser parser(lexer);
    if (text) {
      std::string src;
      src.reserve(vals.size() * 18);
      for (uint32_t v : vals) { src += MNEMS[m]; src += ' '; src += spell(v, spelling); src += '\n'; }
      lexer.loadBuffer(src);
      program = parser.parseProgram();
    } else {
      for (uint32_t v : vals) program.push_back(std::make_unique<hexasm::InstrImm>(MTOK[m], (int)v));
    }
    if (program.size() != vals.size()) failure = "directive count " + std::to_string(program.size());
    hexasm::CodeGen cg(program);
    std::ostringstream os;
    cg.emitProgramBin(os);
    image = os.str();
  } catch (const std::exception &e) {
    failure = std::string("exception: ") + e.what();
  }
  auto report = [&](uint32_t v, const std::string &why, size_t at) {
    st.bad++;
    if (st.badList.size() < 20) {
      vio::Json j;
      j.str("mnemonic", MNEMS[m]).str("literal", spell(v, spelling)).unum("value", v).str("why", why)
       .hex("bytes", image.substr(at, std::min<size_t>(12, image.size() - std::min(at, image.size()))));
      st.badList.push_back(j.done());
    }
  };
  if (!failure.empty()) { for (uint32_t v : vals) { report(v, failure, 0); st.values++; } return; }
  size_t cur = 0;
  for (size_t i = 0; i < vals.size(); i++) {
    uint32_t v = vals[i];
    st.values++;
    size_t start = cur;
    uint32_t oreg = 0;
    int k = 0;
    bool ok = true;
    while (true) {
      if (cur >= image.size()) { report(v, "image ends inside the chain", start); ok = false; break; }
      unsigned char b = (unsigned char)image[cur++];
      unsigned opc = b >> 4;
      oreg |= b & 0xF;
      if (opc == 0xE) { oreg <<= 4; k++; }
      else if (opc == 0xF) { oreg = 0xFFFFFF00u | (oreg << 4); k++; }
      else {
        if (opc != MOPC[m]) { report(v, "chain ends in opcode " + std::to_string(opc), start); ok = false; }
        else if (oreg != v) { report(v, "delivers " + std::to_string(oreg), start); ok = false; }
        break;
      }
      if (k > 16) { report(v, "more than 16 prefixes", start); ok = false; break; }
    }
    if (!ok) {
      // The walk cannot be resynchronised inside this image: assemble the
      // remaining values on their own so each still gets a verdict.
      if (i + 1 < vals.size()) {
        std::vector<uint32_t> rest(vals.begin() + i + 1, vals.end());
        if (st.bad < 2000) c04Batch(m, spelling, text, rest, st);
        else { st.values += rest.size(); st.bad += rest.size(); }
      }
      return;
    }
    st.chainLen[std::min(k + 1, 9)]++;
    if (st.samples.size() < 6 && (i % 9973) == 7) {
      vio::Json j;
      j.str("line", std::string(MNEMS[m]) + " " + spell(v, spelling)).hex("bytes", image.substr(start, cur - start));
      st.samples.push_back(j.done());
    }
  }
  // the rest must be zero padding up to a word boundary
  size_t rest = image.size() - cur;
  bool padOk = rest < 4 && image.size() % 4 == 0;
  for (size_t i = cur; i < image.size(); i++) if (image[i] != 0) padOk = false;
  if (!padOk) report(vals.back(), "trailing bytes are not word padding (" + std::to_string(rest) + " left)", cur);
}

int c04Main(int argc, char **argv) {
  if (argc < 9) { fprintf(stderr, "usage: c04 level mnemonic spelling lo hi stride out\n"); return 3; }
  bool text = !strcmp(argv[2], "text");
  int m = atoi(argv[3]);
  char spelling = argv[4][0];
  uint64_t lo = strtoull(argv[5], nullptr, 0), hi = strtoull(argv[6], nullptr, 0), stride = strtoull(argv[7], nullptr, 0);
  C04Stats st;
  std::vector<uint32_t> vals;
  vals.reserve(65536);
  for (uint64_t v = lo; v < hi; v += stride) {
    vals.push_back((uint32_t)v);
    if (vals.size() == 65536) { c04Batch(m, spelling, text, vals, st); vals.clear(); }
  }
  if (!vals.empty()) c04Batch(m, spelling, text, vals, st);
  vio::Json j;
  j.unum("values", st.values).unum("bad", st.bad).str("mnemonic", MNEMS[m]).str("level", argv[2]).str("spelling", argv[4])
   .unum("lo", lo).unum("hi", hi).unum("stride", stride);
  std::vector<long long> cl(st.chainLen, st.chainLen + 10);
  j.raw("chain_len", vio::jsonNumArray(cl)).raw("bad_list", vio::jsonArray(st.badList)).raw("samples", vio::jsonArray(st.samples));
  FILE *out = fopen(argv[8], "wb");
  if (!out) return 3;
  fputs(j.done().c_str(), out); fputc('\n', out); fclose(out);
  return 0;
}

// explicit value list from a file (one unsigned per line), for the boundary sets
int c04ListMain(int argc, char **argv) {
  if (argc < 7) { fprintf(stderr, "usage: c04list level mnemonic spelling valuesfile out\n"); return 3; }
  bool text = !strcmp(argv[2], "text");
  int m = atoi(argv[3]);
  char spelling = argv[4][0];
  C04Stats st;
  std::vector<uint32_t> vals;
  std::ifstream f(argv[5]);
  uint64_t v;
  while (f >> v) {
    vals.push_back((uint32_t)v);
    if (vals.size() == 65536) { c04Batch(m, spelling, text, vals, st); vals.clear(); }
  }
  if (!vals.empty()) c04Batch(m, spelling, text, vals, st);
  vio::Json j;
  j.unum("values", st.values).unum("bad", st.bad).str("mnemonic", MNEMS[m]).str("level", argv[2]).str("spelling", argv[4]);
  std::vector<long long> cl(st.chainLen, st.chainLen + 10);
  j.raw("chain_len", vio::jsonNumArray(cl)).raw("bad_list", vio::jsonArray(st.badList)).raw("samples", vio::jsonArray(st.samples));
  FILE *out = fopen(argv[6], "wb");
  if (!out) return 3;
  fputs(j.done().c_str(), out); fputc('\n', out); fclose(out);
  return 0;
}

} // namespace

int main(int argc, char **argv) {
  if (argc >= 2 && !strcmp(argv[1], "c04")) return c04Main(argc, argv);
  if (argc >= 2 && !strcmp(argv[1], "c04list")) return c04ListMain(argc, argv);
  if (argc >= 2 && !strcmp(argv[1], "cases"))
    return vio::mainLoop(argc, argv, 20000, asmCase);
  fprintf(stderr, "usage: h_asm cases|c04|c04list ...\n");
  return 3;
}
