// E2: reference model of the Hex ISA, written from the simulator listing in
// docs/PDFs/hexb.pdf (main/svc/simin/simout/load), not from hexsim.hpp.
//
// Added around the definitional core:
//  * classify(): says, before an instruction executes, whether it is defined
//    and which words it will fetch/load/store (so lock-step runs stop before
//    leaving the range the properties quantify over);
//  * Monitor callbacks on fetch/load/store/syscall/branch.
#ifndef VERIF_REFISA_HPP
#define VERIF_REFISA_HPP

#include <cstdint>
#include <cstring>
#include <string>
#include <vector>

namespace refisa {

constexpr uint32_t MEM_WORDS = 200000;

enum Opc {
  LDAM = 0x0, LDBM = 0x1, STAM = 0x2, LDAC = 0x3, LDBC = 0x4, LDAP = 0x5,
  LDAI = 0x6, LDBI = 0x7, STAI = 0x8, BR = 0x9, BRZ = 0xA, BRN = 0xB,
  UNDEF_C = 0xC, OPR = 0xD, PFIX = 0xE, NFIX = 0xF
};
enum Opr { BRB = 0, ADD = 1, SUB = 2, SVC = 3 };

inline const char *opcName(unsigned o) {
  static const char *n[16] = {"LDAM", "LDBM", "STAM", "LDAC", "LDBC", "LDAP", "LDAI", "LDBI",
                              "STAI", "BR", "BRZ", "BRN", "UNKNOWN", "OPR", "PFIX", "NFIX"};
  return n[o & 15];
}

enum Class {
  DEFINED = 0,
  UNDEF_OPCODE,   // 0xC
  UNDEF_OPR,      // OPR with oreg|operand > 3
  UNDEF_SVC,      // SVC with areg > 2
  OOR_FETCH,      // pc word outside memory
  OOR_DATA        // load/store/syscall slot outside memory
};

struct Pre {
  Class cls = DEFINED;
  uint8_t inst = 0;
  uint32_t operand = 0;       // oreg | low nibble
  int nLoads = 0, nStores = 0;
  uint32_t loads[3];
  uint32_t stores[1];
  bool isSvc = false;
};

// Virtual I/O world, modelled on simin/simout of hexb.pdf and shared slot per
// file index as in the repository's HexSimIO.
struct World {
  std::string consoleIn;
  size_t consolePos = 0;        // bytes consumed from consoleIn
  bool consoleEof = false;      // a read hit end of input
  std::string consoleOut;
  std::string fileIn[8];        // contents of simin<k> ("absent" if !fileInPresent)
  bool fileInPresent[8] = {false, false, false, false, false, false, false, false};
  size_t filePos[8] = {0, 0, 0, 0, 0, 0, 0, 0};
  std::string fileOut[8];
  int slot[8] = {0, 0, 0, 0, 0, 0, 0, 0}; // 0 unconnected, 1 output, 2 input
  uint64_t reads = 0, writes = 0;

  void out(uint8_t b, int32_t stream) {
    writes++;
    if (stream < 256) { consoleOut.push_back((char)b); return; }
    int f = (stream >> 8) & 7;
    if (slot[f] == 0) slot[f] = 1;
    if (slot[f] == 1) fileOut[f].push_back((char)b);
    // a slot connected for input silently drops output
  }
  int in(int32_t stream) { // returns 0..255 or -1 at end of input
    reads++;
    if (stream < 256) {
      if (consolePos < consoleIn.size()) return (unsigned char)consoleIn[consolePos++];
      consoleEof = true;
      return -1;
    }
    int f = (stream >> 8) & 7;
    if (slot[f] == 0) slot[f] = 2;
    if (slot[f] == 2 && fileInPresent[f] && filePos[f] < fileIn[f].size())
      return (unsigned char)fileIn[f][filePos[f]++];
    return -1;
  }
};

struct Monitor {
  virtual ~Monitor() {}
  virtual void onFetch(uint32_t pc, uint8_t inst) {}
  virtual void onLoad(uint32_t word, uint32_t value) {}
  virtual void onStore(uint32_t word, uint32_t value, uint32_t old) {}
  virtual void onSyscall(uint32_t num, uint32_t sp, uint32_t a0, uint32_t a1, int result) {}
  virtual void onBranch(uint32_t from, uint32_t to, uint8_t inst) {}
};

struct Machine {
  uint32_t pc = 0, areg = 0, breg = 0, oreg = 0;
  std::vector<uint32_t> mem;
  bool running = true;
  uint32_t exitValue = 0;
  uint64_t steps = 0;
  World *world = nullptr;
  Monitor *mon = nullptr;

  Machine() : mem(MEM_WORDS, 0) {}

  void reset() {
    pc = areg = breg = oreg = 0;
    running = true; exitValue = 0; steps = 0;
    std::fill(mem.begin(), mem.end(), 0);
  }

  // Load an image file (length word, then little-endian words); returns
  // number of image words, or -1 if the file is too short.
  // allowShort: a file that ends before the announced number of words is an image whose missing bytes are zero
  long loadImage(const std::string &file, bool allowShort = false) {
    if (file.size() < 4) return -1;
    auto rd = [&](size_t o) {
      uint32_t v = 0;
      for (int l = 0; l < 4; l++) if (o + l < file.size()) v |= (uint32_t)(unsigned char)file[o + l] << (8 * l);
      return v;
    };
    uint32_t words = rd(0);
    if ((!allowShort && (uint64_t)words * 4 + 4 > file.size()) || words > MEM_WORDS) return -1;
    for (uint32_t i = 0; i < words; i++) mem[i] = rd(4 + 4 * (size_t)i);
    return (long)words;
  }

  uint8_t fetchByte(uint32_t a) const { return (uint8_t)(mem[a >> 2] >> ((a & 3) * 8)); }

  Pre classify() const {
    Pre p;
    if ((pc >> 2) >= MEM_WORDS) { p.cls = OOR_FETCH; return p; }
    p.inst = fetchByte(pc);
    p.operand = oreg | (p.inst & 0xF);
    auto ld = [&](uint32_t w) { p.loads[p.nLoads++] = w; if (w >= MEM_WORDS) p.cls = OOR_DATA; };
    auto st = [&](uint32_t w) { p.stores[p.nStores++] = w; if (w >= MEM_WORDS) p.cls = OOR_DATA; };
    switch (p.inst >> 4) {
    case LDAM: case LDBM: ld(p.operand); break;
    case STAM: st(p.operand); break;
    case LDAI: ld(areg + p.operand); break;
    case LDBI: ld(breg + p.operand); break;
    case STAI: st(breg + p.operand); break;
    case UNDEF_C: p.cls = UNDEF_OPCODE; break;
    case OPR:
      if (p.operand > 3) { p.cls = UNDEF_OPR; break; }
      if (p.operand == SVC) {
        p.isSvc = true;
        if (areg > 2) { p.cls = UNDEF_SVC; break; }
        ld(1);
        uint32_t sp = mem[1];
        if (areg == 0) ld(sp + 2);
        else if (areg == 1) { ld(sp + 2); ld(sp + 3); }
        else { ld(sp + 2); st(sp + 1); }
      }
      break;
    default: break;
    }
    return p;
  }

  uint32_t load(uint32_t w) {
    uint32_t v = mem[w];
    if (mon) mon->onLoad(w, v);
    return v;
  }
  void store(uint32_t w, uint32_t v) {
    uint32_t old = mem[w];
    mem[w] = v;
    if (mon) mon->onStore(w, v, old);
  }

  void svc() {
    uint32_t sp = load(1);
    switch (areg) {
    case 0: {
      uint32_t v = load(sp + 2);
      exitValue = v; running = false;
      if (mon) mon->onSyscall(0, sp, v, 0, 0);
      break;
    }
    case 1: {
      uint32_t b = load(sp + 2), s = load(sp + 3);
      world->out((uint8_t)b, (int32_t)s);
      if (mon) mon->onSyscall(1, sp, b, s, 0);
      break;
    }
    case 2: {
      uint32_t s = load(sp + 2);
      int r = world->in((int32_t)s);
      store(sp + 1, (uint32_t)r & 0xFF);
      if (mon) mon->onSyscall(2, sp, s, 0, r);
      break;
    }
    }
  }

  // Execute one instruction; the caller has checked classify().cls == DEFINED.
  void step() {
    uint32_t at = pc;
    uint8_t inst = fetchByte(pc);
    if (mon) mon->onFetch(pc, inst);
    pc = pc + 1;
    oreg = oreg | (inst & 0xF);
    switch (inst >> 4) {
    case LDAM: areg = load(oreg); oreg = 0; break;
    case LDBM: breg = load(oreg); oreg = 0; break;
    case STAM: store(oreg, areg); oreg = 0; break;
    case LDAC: areg = oreg; oreg = 0; break;
    case LDBC: breg = oreg; oreg = 0; break;
    case LDAP: areg = pc + oreg; oreg = 0; break;
    case LDAI: areg = load(areg + oreg); oreg = 0; break;
    case LDBI: breg = load(breg + oreg); oreg = 0; break;
    case STAI: store(breg + oreg, areg); oreg = 0; break;
    case BR: pc = pc + oreg; oreg = 0; if (mon) mon->onBranch(at, pc, inst); break;
    case BRZ: if (areg == 0) { pc = pc + oreg; if (mon) mon->onBranch(at, pc, inst); } oreg = 0; break;
    case BRN: if ((int32_t)areg < 0) { pc = pc + oreg; if (mon) mon->onBranch(at, pc, inst); } oreg = 0; break;
    case PFIX: oreg = oreg << 4; break;
    case NFIX: oreg = 0xFFFFFF00u | (oreg << 4); break;
    case OPR:
      switch (oreg) {
      case BRB: pc = breg; if (mon) mon->onBranch(at, pc, inst); break;
      case ADD: areg = areg + breg; break;
      case SUB: areg = areg - breg; break;
      case SVC: svc(); break;
      }
      oreg = 0;
      break;
    }
    steps++;
  }
};

} // namespace refisa

#endif
