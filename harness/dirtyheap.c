/* LD_PRELOAD shim: malloc/calloc-free heap poisoning.  malloc returns memory
 * pre-filled from a seeded pattern and free scribbles over the block, so that
 * any dependence of a tool's output on uninitialised or stale heap contents
 * shows up as a difference between runs with different DIRTYHEAP_SEED. */
#define _GNU_SOURCE
#include <dlfcn.h>
#include <stdint.h>
#include <stdlib.h>
#include <string.h>
#include <malloc.h>

static void *(*real_malloc)(size_t);
static void (*real_free)(void *);
static void *(*real_realloc)(void *, size_t);
static uint32_t state;
static int inited, busy;

static void init(void) {
  if (inited) return;
  inited = 1;
  real_malloc = (void *(*)(size_t))dlsym(RTLD_NEXT, "malloc");
  real_free = (void (*)(void *))dlsym(RTLD_NEXT, "free");
  real_realloc = (void *(*)(void *, size_t))dlsym(RTLD_NEXT, "realloc");
  const char *s = getenv("DIRTYHEAP_SEED");
  state = (s ? (uint32_t)strtoul(s, 0, 0) : 1u) * 2654435761u + 99u;
}

static void fill(unsigned char *p, size_t n) {
  uint32_t x = state;
  for (size_t i = 0; i < n; i++) { x ^= x << 13; x ^= x >> 17; x ^= x << 5; p[i] = (unsigned char)(x >> 8); }
  state = x;
}

void *malloc(size_t n) {
  if (!inited) init();
  if (!real_malloc) return 0;
  void *p = real_malloc(n);
  if (p && !busy) { busy = 1; fill((unsigned char *)p, n); busy = 0; }
  return p;
}

void free(void *p) {
  if (!inited) init();
  if (!p) return;
  if (!busy) { busy = 1; size_t n = malloc_usable_size(p); memset(p, 0xDD ^ (state & 0xFF), n); busy = 0; }
  real_free(p);
}

void *realloc(void *p, size_t n) {
  if (!inited) init();
  size_t old = p ? malloc_usable_size(p) : 0;
  void *q = real_realloc(p, n);
  if (q && n > old && !busy) { busy = 1; fill((unsigned char *)q + old, n - old); busy = 0; }
  return q;
}
