// X program harness: compile in-process with xcmp::Driver, run the binary on
// hexsim::Processor (HEX_VERIF observer) in lock-step with the reference ISA
// model, with the C08 address monitors on the reference side.
//
//   h_x cases <in> <out>
// case fields:
//   src        X source text
//   input      console input bytes
//   maxcycles  instruction budget (default 2000000)
//   fin<k>     contents of simin<k> (k = 0..7), optional
//   want       comma list: listing,trace,tree,noexec
#include <cstdio>
#include <cstdlib>
#include <fstream>
#include <memory>
#include <sstream>
#include <string>
#include <vector>
#include <unistd.h>

#include "hex.hpp"
#include "hexasm.hpp"
#include "xcmp.hpp"
#include "hexsim.hpp"
#include "refisa.hpp"
#include "caseio.hpp"

namespace {

using refisa::MEM_WORDS;

std::string slurp(const std::string &p) {
  std::ifstream f(p, std::ios::binary);
  std::stringstream ss; ss << f.rdbuf(); return ss.str();
}

struct LayoutRunaway { size_t pass; };
void layoutHook(size_t pass, size_t n) { if (pass > 8 * n + 64) throw LayoutRunaway{pass}; }

// C08 monitors on the reference model.
struct RegionMonitor : refisa::Monitor {
  std::vector<uint8_t> fetched, stored;  // per word
  uint32_t imageWords = 0, startWord = 0, sp0 = 0;
  uint32_t minStore = 0xFFFFFFFFu, minSp = 0xFFFFFFFFu, maxSp = 0, maxWord = 0;
  uint64_t nFetch = 0, nLoad = 0, nStoreData = 0, nStoreFree = 0;
  std::vector<std::string> viol;
  RegionMonitor() : fetched(MEM_WORDS, 0), stored(MEM_WORDS, 0) {}
  void add(const std::string &code, uint32_t pc, uint32_t word, uint32_t value) {
    if (viol.size() < 8) {
      vio::Json j; j.str("code", code).unum("pc", pc).unum("word", word).unum("value", value);
      viol.push_back(j.done());
    }
  }
  uint32_t curPc = 0;
  void onFetch(uint32_t pc, uint8_t) override {
    curPc = pc; nFetch++;
    uint32_t w = pc >> 2;
    if (w > maxWord) maxWord = w;
    if (stored[w]) add("fetch-from-stored-word", pc, w, 0);
    fetched[w] = 1;
    if (w >= imageWords) add("fetch-outside-image", pc, w, 0);
  }
  void onLoad(uint32_t w, uint32_t) override { nLoad++; if (w > maxWord) maxWord = w; }
  void onStore(uint32_t w, uint32_t v, uint32_t) override {
    if (w > maxWord) maxWord = w;
    if (fetched[w]) add("store-to-fetched-word", curPc, w, v);
    stored[w] = 1;
    if (w < imageWords) {
      if (w == 0 || w >= startWord) add("store-into-code-region", curPc, w, v);
      else nStoreData++;
    } else {
      nStoreFree++;
      if (w < minStore) minStore = w;
    }
    if (w == 1) {
      if (v > sp0) add("stack-pointer-above-initial", curPc, w, v);
      if (v < minSp) minSp = v;
      if (v > maxSp) maxSp = v;
    }
  }
};

struct RunResult {
  std::string ended;          // exit | budget | left-range:<cls> | exception:<what> | mismatch
  uint64_t cycles = 0;
  int runReturn = 0;
  uint32_t refExit = 0;
  std::vector<std::string> events;
  std::vector<std::string> mismatches;
  std::string consoleOut;
  size_t consumed = 0;
  bool mainReturned = false;
  uint32_t spAtMainReturn = 0;
  std::vector<long long> entries;   // byte addresses entered by LDAP+BR call sequences (C15)
};

const char *clsName(int c) {
  static const char *n[] = {"defined", "undefined-opcode", "undefined-opr", "undefined-svc", "fetch-out-of-range", "data-out-of-range"};
  return n[c];
}

std::string runCase(const vio::Case &c) {
  vio::Json j;
  std::string want = "," + c.str("want") + ",";
  auto wants = [&](const char *w) { return want.find(std::string(",") + w + ",") != std::string::npos; };
  hexverif::layoutIteration = layoutHook;
  for (int k = 0; k < 8; k++) {
    unlink(("simout" + std::to_string(k)).c_str());
    unlink(("simin" + std::to_string(k)).c_str());
    std::string key = "fin" + std::to_string(k);
    if (c.has(key.c_str())) { std::ofstream f("simin" + std::to_string(k), std::ios::binary); f << c.str(key.c_str()); }
  }
  const char *binName = "x_out.bin";
  unlink(binName);
  // ---------------------------------------------------------------- compile
  std::string errtype, err, errclass;
  bool located = false;
  // C11: unrelated compilations earlier in the same process (fields pre0, pre1, ...); with the field `reuse` they and
  // the compilation under test go through one Driver object (its lexer and parser are members that live on).
  std::ostringstream sharedSink;
  std::unique_ptr<xcmp::Driver> shared;
  if (c.has("reuse")) shared = std::make_unique<xcmp::Driver>(sharedSink);
  for (int k = 0; k < 64; k++) {
    std::string key = "pre" + std::to_string(k);
    if (!c.has(key.c_str())) break;
    std::ostringstream sink;
    try {
      if (shared) {
        shared->run((k % 3 == 2) ? xcmp::DriverAction::EMIT_ASM : xcmp::DriverAction::EMIT_BINARY, c.str(key.c_str()), false, "x_pre.bin");
      } else {
        xcmp::Driver d0(sink);
        d0.run(xcmp::DriverAction::EMIT_BINARY, c.str(key.c_str()), false, "x_pre.bin");
      }
    } catch (...) {}
    unlink("x_pre.bin");
  }
  // with the field `lfirst` the listing is produced first, directly after the earlier compilations (otherwise it is the
  // second compilation of the source and follows a compilation that succeeded)
  std::string earlyListing, earlyListingError;
  bool haveEarly = false;
  if (c.has("lfirst") && wants("listing")) {
    std::ostringstream lst;
    try {
      if (shared) {
        sharedSink.str("");
        shared->run(xcmp::DriverAction::EMIT_ASM, c.str("src"), false);
        earlyListing = sharedSink.str();
      } else {
        xcmp::Driver d2(lst);
        d2.run(xcmp::DriverAction::EMIT_ASM, c.str("src"), false);
        earlyListing = lst.str();
      }
      haveEarly = true;
    } catch (const std::exception &e) { earlyListingError = e.what(); }
  }
  {
    std::ostringstream sink;
    try {
      if (shared) {
        shared->run(xcmp::DriverAction::EMIT_BINARY, c.str("src"), false, binName);
      } else {
        xcmp::Driver driver(sink);
        driver.run(xcmp::DriverAction::EMIT_BINARY, c.str("src"), false, binName);
      }
    } catch (const hexutil::Error &e) { errtype = "Error"; err = e.what(); located = e.hasLocation(); errclass = vio::demangled(e); }
    catch (const std::exception &e) { errtype = "std::exception"; err = e.what(); }
    catch (const LayoutRunaway &) { errtype = "layout-runaway"; err = "layout did not converge"; }
    catch (...) { errtype = "non-std-exception"; err = "?"; }
  }
  if (!errtype.empty()) {
    j.boolean("ok", false).str("errtype", errtype).str("err", err).boolean("located", located).str("errclass", errclass)
     .boolean("wrote", access(binName, F_OK) == 0);
    return j.done();
  }
  std::string file = slurp(binName);
  j.boolean("ok", true).hex("file", file);
  if (wants("listing") && c.has("lfirst")) {
    if (haveEarly) j.str("listing", earlyListing); else j.str("listing_error", earlyListingError);
  } else if (wants("listing")) {
    std::ostringstream lst;
    try {
      if (shared) {
        sharedSink.str("");
        shared->run(xcmp::DriverAction::EMIT_ASM, c.str("src"), false);
        j.str("listing", sharedSink.str());
      } else {
        xcmp::Driver d2(lst);
        d2.run(xcmp::DriverAction::EMIT_ASM, c.str("src"), false);
        j.str("listing", lst.str());
      }
    } catch (const std::exception &e) { j.str("listing_error", e.what()); }
  }
  if (wants("noexec")) return j.done();

  // ---------------------------------------------------------------- run in lock-step
  uint64_t maxCycles = (uint64_t)c.num("maxcycles", 2000000);
  refisa::Machine ref;
  refisa::World world;
  RegionMonitor mon;
  ref.world = &world; ref.mon = &mon;
  world.consoleIn = c.str("input");
  for (int k = 0; k < 8; k++) {
    std::string key = "fin" + std::to_string(k);
    if (c.has(key.c_str())) { world.fileIn[k] = c.str(key.c_str()); world.fileInPresent[k] = true; }
  }
  long words = ref.loadImage(file);
  if (words < 2) { j.str("ended", "bad-image"); return j.done(); }
  mon.imageWords = (uint32_t)words;
  mon.sp0 = ref.mem[1];
  {
    // code region starts at the target of the entry branch (label `start`), found by decoding it
    refisa::Machine probe; probe.world = &world;
    probe.mem = ref.mem;
    int guard = 0;
    while (guard++ < 16) { uint8_t b = probe.fetchByte(probe.pc); unsigned o = b >> 4; if (o != 14 && o != 15 && o != refisa::BR) break; probe.step(); if (o == refisa::BR) break; }
    mon.startWord = probe.pc >> 2;
  }
  std::istringstream in(c.str("input"));
  std::ostringstream out;
  auto sim = std::make_unique<hexsim::Processor>(in, out);
  std::memset(sim->verifMemory(), 0, sizeof(uint32_t) * MEM_WORDS);
  sim->load(binName);
  RunResult rr;
  bool loadOk = true;
  for (long i = 0; i < words + 4; i++) if (sim->verifMemory()[i] != ref.mem[i]) loadOk = false;
  if (!loadOk) rr.mismatches.push_back("\"load: simulator memory differs from the image file\"");
  uint32_t exitStubAddr = 0xFFFFFFFFu;   // address produced by the entry stub's LDAP
  bool firstLdapSeen = false;
  uint8_t prevOpc = 0xFF; uint32_t prevAreg = 0;
  refisa::Pre pre = ref.classify();
  bool stopEarly = false;
  if (pre.cls != refisa::DEFINED) { rr.ended = std::string("left-range:") + clsName(pre.cls); stopEarly = true; }
  sim->verifObserver = [&](hexsim::Processor &p) -> bool {
    // `pre` describes the instruction hexsim has just executed
    uint32_t a0 = ref.areg;
    unsigned opc = pre.inst >> 4;
    uint32_t pcBefore = ref.pc;
    ref.step();
    rr.cycles++;
    if (p.verifGetPC() != ref.pc || p.verifGetAreg() != ref.areg || p.verifGetBreg() != ref.breg || p.verifGetOreg() != ref.oreg) {
      vio::Json m; m.str("what", "registers").unum("pc_before", pcBefore).unum("inst", pre.inst)
        .unum("ref_pc", ref.pc).unum("sim_pc", p.verifGetPC()).unum("ref_areg", ref.areg).unum("sim_areg", p.verifGetAreg())
        .unum("ref_breg", ref.breg).unum("sim_breg", p.verifGetBreg()).unum("ref_oreg", ref.oreg).unum("sim_oreg", p.verifGetOreg());
      rr.mismatches.push_back(m.done());
      rr.ended = "mismatch"; return false;
    }
    for (int i = 0; i < pre.nStores; i++) {
      if (p.verifMemory()[pre.stores[i]] != ref.mem[pre.stores[i]]) {
        vio::Json m; m.str("what", "store").unum("word", pre.stores[i]).unum("ref", ref.mem[pre.stores[i]]).unum("sim", p.verifMemory()[pre.stores[i]]);
        rr.mismatches.push_back(m.done()); rr.ended = "mismatch"; return false;
      }
    }
    if (pre.isSvc) {
      uint32_t sp = p.verifMemory()[1];
      vio::Json e;
      e.unum("n", a0);
      if (a0 == 0) e.unum("a0", p.verifMemory()[sp + 2]);
      else if (a0 == 1) e.unum("a0", p.verifMemory()[sp + 2]).unum("a1", p.verifMemory()[sp + 3]);
      else e.unum("a0", p.verifMemory()[sp + 2]).unum("r", p.verifMemory()[sp + 1]);
      e.unum("at", rr.cycles);
      if (rr.events.size() < 20000) rr.events.push_back(e.done());
    }
    // call detection for C15: LDAP immediately followed by a taken BR with areg = address after the BR
    if (opc == refisa::LDAP && !firstLdapSeen) { firstLdapSeen = true; exitStubAddr = ref.areg; }
    if (opc == refisa::BR && prevOpc == refisa::LDAP && prevAreg == pcBefore + 1 && ref.areg == prevAreg) {
      if (rr.entries.size() < 20000) rr.entries.push_back((long long)ref.pc);
    }
    if (opc != refisa::PFIX && opc != refisa::NFIX) { prevOpc = (uint8_t)opc; prevAreg = ref.areg; }
    // control is back at the entry stub, by whatever instruction it got there
    if (ref.pc == exitStubAddr && !rr.mainReturned) {
      rr.mainReturned = true; rr.spAtMainReturn = ref.mem[1];
    }
    if (!ref.running) { rr.ended = "exit"; return true; }
    if (rr.cycles >= maxCycles) { rr.ended = "budget"; return false; }
    pre = ref.classify();
    if (pre.cls != refisa::DEFINED) { rr.ended = std::string("left-range:") + clsName(pre.cls); return false; }
    return true;
  };
  if (!stopEarly) {
    try { rr.runReturn = sim->run(); }
    catch (const std::exception &e) { rr.ended = std::string("exception:") + e.what(); }
  }
  rr.refExit = ref.exitValue;
  rr.consoleOut = out.str();
  rr.consumed = (in.fail() || in.eof()) ? c.str("input").size() : (size_t)in.tellg();
  bool simRunning = sim->verifRunning();
  sim.reset();   // flush simout files
  j.str("ended", rr.ended).unum("cycles", rr.cycles).num("run_return", rr.runReturn).unum("ref_exit", rr.refExit)
   .boolean("sim_running", simRunning)
   .raw("events", vio::jsonArray(rr.events)).raw("isa_mismatches", vio::jsonArray(rr.mismatches))
   .hex("console", rr.consoleOut).hex("ref_console", world.consoleOut)
   .unum("consumed", rr.consumed).unum("ref_consumed", world.consolePos);
  {
    std::vector<std::string> files;
    for (int k = 0; k < 8; k++) {
      std::string nm = "simout" + std::to_string(k);
      bool ex = access(nm.c_str(), F_OK) == 0;
      if (ex || world.slot[k] == 1) {
        vio::Json f; f.num("k", k).boolean("exists", ex).hex("data", ex ? slurp(nm) : "").hex("ref", world.fileOut[k]);
        files.push_back(f.done());
      }
    }
    j.raw("files", vio::jsonArray(files));
  }
  // C08 facts
  {
    vio::Json m;
    m.unum("image_words", mon.imageWords).unum("start_word", mon.startWord).unum("sp0", mon.sp0)
     .unum("min_sp", mon.minSp == 0xFFFFFFFFu ? mon.sp0 : mon.minSp).unum("max_word", mon.maxWord)
     .unum("min_free_store", mon.minStore).unum("fetches", mon.nFetch).unum("loads", mon.nLoad)
     .unum("stores_data", mon.nStoreData).unum("stores_free", mon.nStoreFree)
     .boolean("main_returned", rr.mainReturned).unum("sp_at_main_return", rr.spAtMainReturn)
     .raw("violations", vio::jsonArray(mon.viol));
    j.raw("regions", m.done());
  }
  j.raw("entries", vio::jsonNumArray(rr.entries));

  // ---------------------------------------------------------------- traced run (C12/C15)
  if (wants("trace")) {
    for (int k = 0; k < 8; k++) unlink(("simout" + std::to_string(k)).c_str());
    std::istringstream in2(c.str("input"));
    std::ostringstream out2;
    auto sim2 = std::make_unique<hexsim::Processor>(in2, out2);
    std::memset(sim2->verifMemory(), 0, sizeof(uint32_t) * MEM_WORDS);
    sim2->setTracing(true);
    sim2->load(binName);
    uint64_t cyc2 = 0;
    std::vector<std::string> ev2;
    std::string ended2;
    // independent lock-step reference for the traced run (to know which instructions are system calls)
    refisa::Machine ref2; refisa::World world2; ref2.world = &world2;
    world2.consoleIn = c.str("input");
    for (int k = 0; k < 8; k++) { world2.fileIn[k] = world.fileIn[k]; world2.fileInPresent[k] = world.fileInPresent[k]; }
    ref2.loadImage(file);
    std::vector<long long> steps2;
    sim2->verifObserver = [&](hexsim::Processor &p) -> bool {
      refisa::Pre q = ref2.classify();
      uint32_t a0 = ref2.areg;
      if (steps2.size() < 120000) { steps2.push_back((long long)ref2.pc); steps2.push_back((long long)q.inst); }
      ref2.step();
      cyc2++;
      if (q.isSvc) {
        uint32_t sp = p.verifMemory()[1];
        vio::Json e; e.unum("n", a0);
        if (a0 == 0) e.unum("a0", p.verifMemory()[sp + 2]);
        else if (a0 == 1) e.unum("a0", p.verifMemory()[sp + 2]).unum("a1", p.verifMemory()[sp + 3]);
        else e.unum("a0", p.verifMemory()[sp + 2]).unum("r", p.verifMemory()[sp + 1]);
        e.unum("at", cyc2);
        if (ev2.size() < 20000) ev2.push_back(e.done());
      }
      if (p.verifGetPC() != ref2.pc || p.verifGetAreg() != ref2.areg || p.verifGetBreg() != ref2.breg || p.verifGetOreg() != ref2.oreg) {
        ended2 = "trace-changes-state"; return false;
      }
      if (!ref2.running) { ended2 = "exit"; return true; }
      if (cyc2 >= rr.cycles) { ended2 = "budget"; return false; }
      if (ref2.classify().cls != refisa::DEFINED) { ended2 = "left-range"; return false; }
      return true;
    };
    int rv2 = 0;
    if (!stopEarly) {
      try { rv2 = sim2->run(); } catch (const std::exception &e) { ended2 = std::string("exception:") + e.what(); }
    }
    size_t consumed2 = (in2.fail() || in2.eof()) ? c.str("input").size() : (size_t)in2.tellg();
    auto dbg = sim2->verifDebugInfo();
    sim2.reset();
    vio::Json t;
    std::string text = out2.str();
    if (text.size() > (8u << 20)) text.resize(8u << 20);
    t.str("text", text).str("ended", ended2).unum("cycles", cyc2).num("run_return", rv2).unum("consumed", consumed2)
     .raw("events", vio::jsonArray(ev2));
    std::vector<std::string> files;
    for (int k = 0; k < 8; k++) {
      std::string nm = "simout" + std::to_string(k);
      if (access(nm.c_str(), F_OK) == 0) { vio::Json f; f.num("k", k).hex("data", slurp(nm)); files.push_back(f.done()); }
    }
    t.raw("files", vio::jsonArray(files));
    std::vector<std::string> syms;
    for (auto &pr : dbg) { vio::Json s; s.str("name", pr.first).unum("offset", pr.second); syms.push_back(s.done()); }
    t.raw("loader_symbols", vio::jsonArray(syms));
    t.raw("steps", vio::jsonNumArray(steps2));
    j.raw("trace", t.done());
  }
  unlink(binName);
  return j.done();
}

} // namespace

int main(int argc, char **argv) {
  if (argc >= 2 && !strcmp(argv[1], "cases")) return vio::mainLoop(argc, argv, 60000, runCase);
  fprintf(stderr, "usage: h_x cases <in> <out>\n");
  return 3;
}
