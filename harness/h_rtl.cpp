// E6: Verilator co-simulation harness.
//
//  h_rtl c16 <seed> <ngrid_states> <nseq> <randreset> <out.json> [image files...]
//      three-way lock-step of processor.sv / verilog/processor.v / synth/processor.v
//  h_rtl c03 <seed> <ngrid_states> <nseq> <out.json> [image files...]
//      lock-step of the Verilated hex (processor.sv + memory.sv) against hexsim and the reference ISA model
#include <cstdio>
#include <cstdlib>
#include <fstream>
#include <memory>
#include <sstream>
#include <string>
#include <vector>
#include <unistd.h>
#include <csetjmp>
#include <csignal>

#include <verilated.h>
#include <verilated_sym_props.h>
#include "Vsv.h"
#include "Vv.h"
#include "Vs.h"

#include "hexsim.hpp"
#include "refisa.hpp"
#include "caseio.hpp"
#include "prng.hpp"

double sc_time_stamp() { return 0; }

static sigjmp_buf g_jmp;
static volatile sig_atomic_t g_armed = 0;
static void onFault(int sig) {
  if (g_armed) siglongjmp(g_jmp, sig);
  signal(sig, SIG_DFL);
  raise(sig);
}

using refisa::MEM_WORDS;
static const uint32_t RTL_WORDS = 1u << 19;

static const uint32_t CORNERS[] = {
  0, 1, 2, 3, 4, 15, 16, 17, 255, 256, 257, 4095, 4096, 4097, 65535, 65536, 65537,
  0xFFFFF, 0x100000, 0x1FFFFF, 0x200000, 0xFFFFFF, 0x1000000, 0x7FFFFFFF, 0x80000000u, 0x80000001u,
  0xFFFFFFFFu, 0xFFFFFFFEu, 0xFFFFFFF0u, 0xFFFFFF00u, 0xFFFFF000u, 0xFFFF0000u, 0xFFF00000u, 0xFFE00000u,
  199999, 200000, 199998, 799999, 800000, 799996, 524287, 524288, 0x7FFFF, 0x80000, 0x40000, 0xC0000000u
};
static const size_t NCORNERS = sizeof(CORNERS) / sizeof(CORNERS[0]);

static uint32_t pickVal(Prng &r) {
  switch (r.below(4)) {
  case 0: return CORNERS[r.below(NCORNERS)];
  case 1: return CORNERS[r.below(NCORNERS)] + (uint32_t)r.range(-2, 2);
  case 2: return (uint32_t)r.below(MEM_WORDS);
  default: return r.u32();
  }
}

struct Outs {
  uint32_t f_addr, d_valid, d_we, d_addr, d_data, sys_valid, sys;
  bool operator==(const Outs &o) const {
    return f_addr == o.f_addr && d_valid == o.d_valid && d_we == o.d_we && d_addr == o.d_addr &&
           d_data == o.d_data && sys_valid == o.sys_valid && sys == o.sys;
  }
};
struct Regs {
  uint32_t pc, a, b, o;
  bool operator==(const Regs &x) const { return pc == x.pc && a == x.a && b == x.b && o == x.o; }
};

static void *findVar(VerilatedContext *ctx, const char *scope, const char *var) {
  const VerilatedScope *s = ctx->scopeFind(scope);
  if (!s) { fprintf(stderr, "no scope %s\n", scope); exit(4); }
  VerilatedVar *v = s->varFind(var);
  if (!v) { fprintf(stderr, "no variable %s in %s\n", var, scope); exit(4); }
  return v->datap();
}

// State is reached by name through Verilator's public-variable tables, so the
// harness does not depend on which modules Verilator chose to inline.
template <class TOP>
struct Rtl {
  std::unique_ptr<VerilatedContext> ctx;
  std::unique_ptr<TOP> top;
  uint32_t *pc_q, *areg_q, *breg_q, *oreg_q, *memory_q, *req_f_addr, *req_d_addr, *req_d_data;
  uint8_t *req_d_valid, *req_d_we;
  Rtl(int seed, int randReset) {
    ctx.reset(new VerilatedContext);
    ctx->randReset(randReset);
    ctx->randSeed(seed);
    ctx->threads(1);
    { const char *av[] = {"h_rtl"}; ctx->commandArgs(1, av); }
    top.reset(new TOP(ctx.get(), "TOP"));
    auto P = [&](const char *v) { return (uint32_t *)findVar(ctx.get(), "TOP.hex.u_processor", v); };
    pc_q = P("pc_q"); areg_q = P("areg_q"); breg_q = P("breg_q"); oreg_q = P("oreg_q");
    memory_q = (uint32_t *)findVar(ctx.get(), "TOP.hex.u_memory", "memory_q");
    req_f_addr = (uint32_t *)findVar(ctx.get(), "TOP.hex", "req_f_addr");
    req_d_addr = (uint32_t *)findVar(ctx.get(), "TOP.hex", "req_d_addr");
    req_d_data = (uint32_t *)findVar(ctx.get(), "TOP.hex", "req_d_data");
    req_d_valid = (uint8_t *)findVar(ctx.get(), "TOP.hex", "req_d_valid");
    req_d_we = (uint8_t *)findVar(ctx.get(), "TOP.hex", "req_d_we");
    top->i_clk = 0; top->i_rst = 0;
    top->eval();
  }
  ~Rtl() { top->final(); }
  void setRegs(const Regs &r) { *pc_q = r.pc & 0x1FFFFF; *areg_q = r.a; *breg_q = r.b; *oreg_q = r.o; }
  Regs regs() { return Regs{*pc_q, *areg_q, *breg_q, *oreg_q}; }
  uint32_t mem(uint32_t w) { return memory_q[w & (RTL_WORDS - 1)]; }
  void poke(uint32_t w, uint32_t v) { memory_q[w & (RTL_WORDS - 1)] = v; }
  void settle() { top->eval(); }
  Outs outs() {
    return Outs{*req_f_addr, *req_d_valid, *req_d_we, *req_d_addr, *req_d_data, top->o_syscall_valid, top->o_syscall};
  }
  void clock() { top->i_clk = 1; top->eval(); top->i_clk = 0; top->eval(); }
  void reset() { top->i_rst = 1; top->eval(); top->i_clk = 1; top->eval(); top->i_clk = 0; top->eval(); top->i_rst = 0; top->eval(); }
  // reset asserted and released between two clock edges (i_rst is an input like any other)
  void pulseReset() { top->i_rst = 1; top->eval(); top->i_rst = 0; top->eval(); }
};

static std::string regsJson(const Regs &r) {
  vio::Json j; j.unum("pc", r.pc).unum("areg", r.a).unum("breg", r.b).unum("oreg", r.o); return j.done();
}
static std::string outsJson(const Outs &o) {
  vio::Json j; j.unum("f_addr", o.f_addr).unum("d_valid", o.d_valid).unum("d_we", o.d_we).unum("d_addr", o.d_addr)
    .unum("d_data", o.d_data).unum("sys_valid", o.sys_valid).unum("sys", o.sys); return j.done();
}

static std::string slurp(const char *p) {
  std::ifstream f(p, std::ios::binary);
  std::stringstream ss; ss << f.rdbuf(); return ss.str();
}

struct Stats {
  uint64_t cycles = 0, cases = 0, stores = 0, sysreq = 0, signals = 0;
  bool byteSeen[256] = {};
  uint64_t nmis = 0;
  std::vector<std::string> mis, samples;
  uint64_t filtered = 0, archReached = 0, binaries = 0, resets[2] = {0, 0}, fromReset = 0;
  uint64_t opcClass[16][3] = {};
};

static void writeStats(const char *path, Stats &st, uint64_t seed, const char *mode) {
  vio::Json j;
  j.str("mode", mode).unum("seed", seed).unum("cycles", st.cycles).unum("cases", st.cases).unum("stores", st.stores)
   .unum("sysreq", st.sysreq).unum("signals", st.signals).unum("mismatches", st.nmis).unum("filtered", st.filtered)
   .unum("arch_reached", st.archReached).unum("binaries", st.binaries)
   .unum("from_reset_cases", st.fromReset).unum("resets_over_clock_edge", st.resets[0]).unum("reset_pulses_between_edges", st.resets[1]);
  std::vector<long long> bs; int nb = 0;
  for (int i = 0; i < 256; i++) { bs.push_back(st.byteSeen[i]); nb += st.byteSeen[i]; }
  j.num("distinct_bytes", nb).raw("bytes_seen", vio::jsonNumArray(bs));
  std::vector<std::string> rows;
  for (int o = 0; o < 16; o++) { std::vector<long long> row(st.opcClass[o], st.opcClass[o] + 3); rows.push_back(vio::jsonNumArray(row)); }
  j.raw("opc_table", vio::jsonArray(rows));
  j.raw("mismatch_list", vio::jsonArray(st.mis)).raw("samples", vio::jsonArray(st.samples));
  FILE *out = fopen(path, "wb");
  if (!out) { perror(path); exit(3); }
  fputs(j.done().c_str(), out); fputc('\n', out); fclose(out);
  fflush(nullptr);
  _exit(0);   // skip Verilator's static teardown (it can block on its worker-pool locks)
}

// ============================================================== C16
struct Tri {
  Rtl<Vsv> sv; Rtl<Vv> v; Rtl<Vs> s;
  Stats &st; std::string ctx;
  Tri(int seed, int rr, Stats &s_) : sv(seed, rr), v(seed + 1, rr), s(seed + 2, rr), st(s_) {}
  void setRegs(const Regs &r) { sv.setRegs(r); v.setRegs(r); s.setRegs(r); }
  void poke(uint32_t w, uint32_t x) { sv.poke(w, x); v.poke(w, x); s.poke(w, x); }
  void settle() { sv.settle(); v.settle(); s.settle(); }
  void clock() { sv.clock(); v.clock(); s.clock(); }
  void reset() { sv.reset(); v.reset(); s.reset(); }
  void pulseReset() { sv.pulseReset(); v.pulseReset(); s.pulseReset(); }
  void mismatch(const char *what, const std::string &detail) {
    st.nmis++;
    if (st.mis.size() < 20) { vio::Json j; j.str("what", what).str("ctx", ctx).raw("detail", detail); st.mis.push_back(j.done()); }
  }
  // one compared cycle; returns false on mismatch
  bool cycle() {
    settle();
    Regs before = sv.regs();
    Outs a = sv.outs(), b = v.outs(), c = s.outs();
    st.signals += 7 * 2;
    uint32_t w = before.pc >> 2;
    uint8_t inst = (uint8_t)(sv.mem(w) >> ((before.pc & 3) * 8));
    st.byteSeen[inst] = true;
    st.opcClass[inst >> 4][before.o == 0 ? 0 : ((int32_t)before.o < 0 ? 2 : 1)]++;
    bool ok = true;
    if (!(a == b)) { vio::Json d; d.raw("before", regsJson(before)).unum("inst", inst).raw("sv", outsJson(a)).raw("v", outsJson(b)); mismatch("outputs sv/v", d.done()); ok = false; }
    if (!(b == c)) { vio::Json d; d.raw("before", regsJson(before)).unum("inst", inst).raw("v", outsJson(b)).raw("synth", outsJson(c)); mismatch("outputs v/synth", d.done()); ok = false; }
    uint32_t waddr = a.d_addr;
    bool wr = a.d_valid && a.d_we;
    clock();
    st.cycles++;
    Regs ra = sv.regs(), rb = v.regs(), rc = s.regs();
    st.signals += 4 * 2;
    if (!(ra == rb)) { vio::Json d; d.raw("before", regsJson(before)).unum("inst", inst).raw("sv", regsJson(ra)).raw("v", regsJson(rb)); mismatch("registers sv/v", d.done()); ok = false; }
    if (!(rb == rc)) { vio::Json d; d.raw("before", regsJson(before)).unum("inst", inst).raw("v", regsJson(rb)).raw("synth", regsJson(rc)); mismatch("registers v/synth", d.done()); ok = false; }
    if (wr) {
      st.stores++;
      if (sv.mem(waddr) != v.mem(waddr) || v.mem(waddr) != s.mem(waddr)) {
        vio::Json d; d.raw("before", regsJson(before)).unum("inst", inst).unum("word", waddr).unum("sv", sv.mem(waddr)).unum("v", v.mem(waddr)).unum("synth", s.mem(waddr));
        mismatch("memory word", d.done()); ok = false;
      }
    }
    if (a.sys_valid) st.sysreq++;
    return ok;
  }
};

static int c16Main(int argc, char **argv) {
  if (argc < 7) { fprintf(stderr, "usage: c16 seed ngrid nseq randreset out [images]\n"); return 3; }
  uint64_t seed = strtoull(argv[2], nullptr, 0);
  long ngrid = atol(argv[3]), nseq = atol(argv[4]);
  int rr = atoi(argv[5]);
  const char *outPath = argv[6];
  Stats st;
  Tri T((int)(seed & 0x7FFFFFFF) | 1, rr, st);
  {
    // the three memories start identical (power-on randomisation is per model)
    Prng fill(seed, 9, 0);
    for (uint32_t w = 0; w < RTL_WORDS; w++) T.poke(w, fill.u32());
  }
  // self-check: a poked register must be honoured by the next eval()
  {
    T.poke(100, 0x000000D1u);        // OPR ADD at byte 400
    T.setRegs(Regs{400, 5, 7, 0});
    T.settle(); T.clock();
    Regs r = T.sv.regs();
    if (r.pc != 401 || r.a != 12) { fprintf(stderr, "self-check failed: pokes are not honoured (pc=%u areg=%u)\n", r.pc, r.a); return 4; }
  }
  for (long sidx = 0; sidx < ngrid; sidx++) {
    for (unsigned byte = 0; byte < 256; byte++) {
      Prng r(seed, 1, (uint64_t)(sidx * 256 + byte));
      T.ctx = "grid:" + std::to_string(sidx * 256 + byte);
      uint32_t pc = r.below(3) == 0 ? CORNERS[r.below(NCORNERS)] & 0x1FFFFF : (uint32_t)r.below(1u << 21);
      Regs g{pc, pickVal(r), pickVal(r), r.below(3) == 0 ? 0 : pickVal(r)};
      uint32_t w = pc >> 2;
      uint32_t word = r.u32();
      word = (word & ~(0xFFu << ((pc & 3) * 8))) | ((uint32_t)byte << ((pc & 3) * 8));
      T.poke(w, word);
      // memory read data for whatever word the instruction addresses: random words around likely targets
      for (int k = 0; k < 3; k++) T.poke((uint32_t)r.below(RTL_WORDS), r.u32());
      uint32_t opnd = g.o | (byte & 15);
      T.poke(opnd & (RTL_WORDS - 1), r.u32());
      T.poke((g.a + opnd) & (RTL_WORDS - 1), r.u32());
      T.poke((g.b + opnd) & (RTL_WORDS - 1), r.u32());
      T.poke(w, word);
      T.setRegs(g);
      T.cycle();
      st.cases++;
    }
  }
  for (long q = 0; q < nseq; q++) {
    Prng r(seed, 2, (uint64_t)q);
    T.ctx = "seq:" + std::to_string(q);
    int nwords = 16 + (int)r.below(200);
    for (int i = 0; i < nwords; i++) {
      uint32_t word = 0;
      for (int l = 0; l < 4; l++) {
        unsigned b = (unsigned)r.below(256);
        if (r.below(3) == 0) b = (unsigned)((r.below(12) << 4) | r.below(16));   // fewer 0xC/0xD/0xE/0xF
        word |= b << (8 * l);
      }
      T.poke((uint32_t)i, word);
    }
    T.reset();
    int len = 20 + (int)r.below(300);
    for (int k = 0; k < len; k++) {
      unsigned ev = (unsigned)r.below(40);
      if (ev <= 1) {
        // reset in the middle of a run (e.g. between a prefix and its instruction), held over a clock edge or pulsed
        // between two edges: the three designs must agree afterwards
        if (ev == 0) T.reset(); else T.pulseReset();
        st.resets[ev]++;
        Regs ra = T.sv.regs(), rb = T.v.regs(), rc = T.s.regs();
        st.signals += 8;
        if (!(ra == rb) || !(rb == rc)) {
          vio::Json d; d.raw("sv", regsJson(ra)).raw("v", regsJson(rb)).raw("synth", regsJson(rc));
          T.mismatch("registers after reset", d.done());
          break;
        }
        continue;
      }
      if (!T.cycle()) break;
    }
    st.cases++;
  }
  for (int i = 7; i < argc; i++) {
    std::string file = slurp(argv[i]);
    if (file.size() < 8) continue;
    uint32_t words = (uint32_t)(unsigned char)file[0] | ((uint32_t)(unsigned char)file[1] << 8) | ((uint32_t)(unsigned char)file[2] << 16) | ((uint32_t)(unsigned char)file[3] << 24);
    if ((size_t)words * 4 + 4 > file.size() || words > 100000) continue;
    T.ctx = std::string("binary:") + argv[i];
    for (uint32_t k = 0; k < words; k++) {
      uint32_t v = 0;
      for (int l = 0; l < 4; l++) v |= (uint32_t)(unsigned char)file[4 + 4 * k + l] << (8 * l);
      T.poke(k, v);
    }
    T.reset();
    for (int k = 0; k < 3000; k++) if (!T.cycle()) break;
    st.binaries++; st.cases++;
  }
  writeStats(outPath, st, seed, "c16");
  return 0;
}

// ============================================================== C03
struct SimSide {
  std::istringstream in;
  std::ostringstream out;
  std::unique_ptr<hexsim::Processor> p;
  SimSide() {
    p.reset(new hexsim::Processor(in, out));
    std::memset(p->verifMemory(), 0, sizeof(uint32_t) * MEM_WORDS);
    p->verifObserver = [](hexsim::Processor &) { return false; };
  }
};

struct Co {
  Rtl<Vsv> rtl;
  SimSide sim;
  refisa::Machine ref;
  refisa::World world;
  Stats &st;
  std::string ctx;
  Co(int seed, Stats &s) : rtl(seed, 2), st(s) { ref.world = &world; }
  void poke(uint32_t w, uint32_t v) { rtl.poke(w, v); sim.p->verifMemory()[w] = v; ref.mem[w] = v; }
  void pokeByte(uint32_t a, uint8_t b) {
    uint32_t w = a >> 2, sh = (a & 3) * 8;
    poke(w, (ref.mem[w] & ~(0xFFu << sh)) | ((uint32_t)b << sh));
  }
  void setRegs(const Regs &r) {
    rtl.setRegs(r);
    sim.p->verifSetPC(r.pc); sim.p->verifSetAreg(r.a); sim.p->verifSetBreg(r.b); sim.p->verifSetOreg(r.o);
    ref.pc = r.pc; ref.areg = r.a; ref.breg = r.b; ref.oreg = r.o;
  }
  void mismatch(const char *what, const std::string &detail) {
    st.nmis++;
    if (st.mis.size() < 20) { vio::Json j; j.str("what", what).str("ctx", ctx).raw("detail", detail); st.mis.push_back(j.done()); }
  }
  // Is the next instruction inside the range both implementations provide?
  bool inCommonRange(const refisa::Pre &pre) {
    if (pre.cls != refisa::DEFINED) return false;
    if (ref.pc >= MEM_WORDS * 4) return false;
    unsigned opc = pre.inst >> 4;
    uint32_t nextpc = ref.pc + 1;
    uint32_t tgt = nextpc + pre.operand;
    if ((opc == refisa::BR || opc == refisa::LDAP) && tgt >= MEM_WORDS * 4) return false;
    if (opc == refisa::BRZ && ref.areg == 0 && tgt >= MEM_WORDS * 4) return false;
    if (opc == refisa::BRN && (int32_t)ref.areg < 0 && tgt >= MEM_WORDS * 4) return false;
    if (opc == refisa::OPR && pre.operand == refisa::BRB && ref.breg >= MEM_WORDS * 4) return false;
    if (nextpc >= MEM_WORDS * 4) return false;
    return true;
  }
  // one instruction on all three; false ends the case
  bool step() {
    refisa::Pre pre = ref.classify();
    if (!inCommonRange(pre)) { st.filtered++; return false; }
    Regs before{ref.pc, ref.areg, ref.breg, ref.oreg};
    unsigned opc = pre.inst >> 4;
    st.byteSeen[pre.inst] = true;
    st.opcClass[opc][before.o == 0 ? 0 : ((int32_t)before.o < 0 ? 2 : 1)]++;
    rtl.settle();
    Outs o = rtl.outs();
    bool isSvc = pre.isSvc;
    bool ok = true;
    if ((o.sys_valid != 0) != isSvc) {
      vio::Json d; d.raw("before", regsJson(before)).unum("inst", pre.inst).unum("o_syscall_valid", o.sys_valid);
      mismatch("syscall request", d.done()); ok = false;
    }
    if (isSvc && o.sys != (before.a & 3)) {
      vio::Json d; d.raw("before", regsJson(before)).unum("o_syscall", o.sys);
      mismatch("syscall number", d.done()); ok = false;
    }
    if (isSvc) st.sysreq++;
    // the store the RTL is about to perform
    bool rtlWrites = o.d_valid && o.d_we;
    bool refWrites = pre.nStores > 0 && !isSvc;
    if (rtlWrites != refWrites || (refWrites && (o.d_addr != pre.stores[0] || o.d_data != before.a))) {
      vio::Json d; d.raw("before", regsJson(before)).unum("inst", pre.inst).raw("rtl", outsJson(o)).unum("ref_store_word", refWrites ? pre.stores[0] : 0);
      mismatch("store request", d.done()); ok = false;
    }
    rtl.clock();
    g_armed = 1;
    int sig = sigsetjmp(g_jmp, 1);
    if (sig == 0) {
      try { sim.p->run(); } catch (std::exception &e) { g_armed = 0; vio::Json d; d.str("what", e.what()); mismatch("simulator exception", d.done()); return false; }
      g_armed = 0;
    } else {
      g_armed = 0;
      vio::Json d; d.raw("before", regsJson(before)).unum("inst", pre.inst).num("signal", sig);
      mismatch("simulator fault", d.done());
      ref.step();
      (void)sim.p.release();
      sim.p.reset(new hexsim::Processor(sim.in, sim.out));
      std::memcpy(sim.p->verifMemory(), ref.mem.data(), sizeof(uint32_t) * MEM_WORDS);
      sim.p->verifObserver = [](hexsim::Processor &) { return false; };
      return false;
    }
    ref.step();
    st.cycles++;
    if (isSvc && before.a == 2) {
      // the read system call is serviced outside the processor: give the RTL memory the same byte
      uint32_t sp = ref.mem[1];
      rtl.poke(sp + 1, ref.mem[sp + 1]);
    }
    Regs r = rtl.regs();
    Regs s{sim.p->verifGetPC(), sim.p->verifGetAreg(), sim.p->verifGetBreg(), sim.p->verifGetOreg()};
    Regs e{ref.pc, ref.areg, ref.breg, ref.oreg};
    if (!(r == s) || !(s == e)) {
      vio::Json d; d.raw("before", regsJson(before)).unum("inst", pre.inst).raw("rtl", regsJson(r)).raw("hexsim", regsJson(s)).raw("ref", regsJson(e));
      mismatch("registers", d.done()); ok = false;
    }
    if (refWrites) {
      st.stores++;
      uint32_t w = pre.stores[0];
      if (rtl.mem(w) != ref.mem[w] || sim.p->verifMemory()[w] != ref.mem[w]) {
        vio::Json d; d.raw("before", regsJson(before)).unum("word", w).unum("rtl", rtl.mem(w)).unum("hexsim", sim.p->verifMemory()[w]).unum("ref", ref.mem[w]);
        mismatch("stored word", d.done()); ok = false;
      }
    }
    if (!ref.running) return false;
    return ok;
  }
};

static uint32_t pickPcCommon(Prng &r) {
  static const uint32_t P[] = {0, 1, 2, 3, 4, 7, 65535, 65536, 65537, 799998, 799997, 799996, 400000, 12345, 262143, 262144, 524287, 524288};
  if (r.below(3) == 0) return P[r.below(sizeof(P) / sizeof(P[0]))];
  return (uint32_t)r.below(MEM_WORDS * 4 - 1);
}
static uint32_t pickWordIn(Prng &r) {
  static const uint32_t W[] = {0, 1, 2, 3, 15, 16, 255, 256, 4095, 4096, 65535, 65536, 199999, 199998, 131071, 131072};
  if (r.below(3) == 0) return W[r.below(sizeof(W) / sizeof(W[0]))];
  return (uint32_t)r.below(MEM_WORDS);
}

// Register contents planted before a reset: non-zero everywhere, pc inside the memory both implementations provide.
static Regs dirtyRegs(uint64_t k) {
  Prng d(k, 77, 0);
  return Regs{(uint32_t)(64 + d.below(MEM_WORDS * 4 - 128)), d.u32() | 1u, d.u32() | 0x10u, d.u32() | 0x100u};
}

static void c03Grid(Co &C, Prng &r, unsigned byte, bool viaArch) {
  unsigned opc = byte >> 4, nib = byte & 15;
  uint32_t pc = pickPcCommon(r), a = pickVal(r), b = pickVal(r), o = pickVal(r) & ~0xFu;
  if (r.below(3) == 0) o = 0;
  if (r.below(10) < 8) {
    uint32_t t = pickWordIn(r);
    switch (opc) {
    case refisa::LDAM: case refisa::LDBM: case refisa::STAM: o = t & ~0xFu; if ((o | nib) >= MEM_WORDS) o = 0; break;
    case refisa::LDAI: a = t - (o | nib); break;
    case refisa::LDBI: case refisa::STAI: b = t - (o | nib); break;
    case refisa::BR: case refisa::BRZ: case refisa::BRN: case refisa::LDAP: {
      uint32_t tgt = pickPcCommon(r);
      uint32_t off = tgt - (pc + 1);
      o = off & ~0xFu;
      break; }
    case refisa::OPR: o = 0; if (nib == 0) b = pickPcCommon(r); break;
    default: break;
    }
  }
  if (opc == refisa::OPR) o = 0;
  C.pokeByte(pc, (uint8_t)byte);
  if (opc == refisa::OPR && nib == 3) {
    a = (uint32_t)r.below(3);
    uint32_t sp = 1000 + (uint32_t)r.below(190000);
    if (sp + 3 >= (pc >> 2) && sp <= (pc >> 2)) sp += 8;
    C.poke(1, sp);
    C.poke(sp + 2, a == 0 ? pickVal(r) : (uint32_t)r.below(256));
    C.poke(sp + 3, (uint32_t)r.below(256));
    C.pokeByte(pc, (uint8_t)byte);
  }
  std::string input; int n = (int)r.below(3);
  for (int i = 0; i < n; i++) input.push_back((char)r.below(256));
  C.sim.in.clear(); C.sim.in.str(input);
  C.world.consoleIn = input; C.world.consolePos = 0; C.world.consoleEof = false; C.world.consoleOut.clear();
  C.sim.out.clear(); C.sim.out.str("");
  C.sim.p->verifSetRunning(true); C.ref.running = true;
  if (viaArch && pc >= 64 && pc < MEM_WORDS * 4 - 64 && o == 0) {
    // reach the state architecturally from reset: code at address 0
    std::vector<uint8_t> code;
    auto emit = [&](unsigned opcode, uint32_t v) {
      int nn = 8; while (nn > 1 && ((v >> ((nn - 1) * 4)) & 0xF) == 0) nn--;
      for (int i = nn - 1; i >= 1; i--) code.push_back((uint8_t)(0xE0 | ((v >> (i * 4)) & 0xF)));
      code.push_back((uint8_t)((opcode << 4) | (v & 0xF)));
    };
    emit(refisa::LDAC, a); emit(refisa::LDBC, b);
    uint32_t after = (uint32_t)code.size() + 8;
    uint32_t off = pc - after;
    for (int i = 7; i >= 1; i--) code.push_back((uint8_t)(0xE0 | ((off >> (i * 4)) & 0xF)));
    code.push_back((uint8_t)(0x90 | (off & 0xF)));
    if (pc < 64 + code.size()) { C.setRegs(Regs{pc, a, b, o}); C.step(); return; }
    for (size_t i = 0; i < code.size(); i++) C.pokeByte((uint32_t)i, code[i]);
    C.pokeByte(pc, (uint8_t)byte);
    // "started from reset": whatever the registers held before must not matter
    C.rtl.setRegs(dirtyRegs(r.u64())); C.rtl.settle();
    C.rtl.reset();
    C.sim.p->verifSetPC(0); C.sim.p->verifSetAreg(0); C.sim.p->verifSetBreg(0); C.sim.p->verifSetOreg(0);
    C.ref.pc = C.ref.areg = C.ref.breg = C.ref.oreg = 0;
    for (size_t i = 0; i < code.size(); i++) if (!C.step()) return;
    C.st.archReached++;
    C.step();
    return;
  }
  C.setRegs(Regs{pc, a, b, o});
  C.step();
}

// From reset: the instruction at address 0 (every byte value in turn) is the first one retired after the reset is
// released, with all registers zero on the architectural side and dirty registers planted in the RTL before the reset.
static void c03FromReset(Co &C, Prng &r, unsigned firstByte) {
  for (uint32_t w = 0; w < 24; w++) {
    uint32_t word = 0;
    for (int l = 0; l < 4; l++) {
      unsigned b = (unsigned)r.below(256);
      if (r.below(3) != 0) b = (unsigned)((r.below(12) << 4) | r.below(16));   // mostly opcodes 0..11
      word |= b << (8 * l);
    }
    if (w == 0) word = (word & ~0xFFu) | firstByte;
    if (w == 1) word = 1000 + (uint32_t)r.below(100000);                         // a stack pointer for system calls
    C.poke(w, word);
  }
  std::string input; int n = (int)r.below(3);
  for (int i = 0; i < n; i++) input.push_back((char)r.below(256));
  C.sim.in.clear(); C.sim.in.str(input);
  C.world.consoleIn = input; C.world.consolePos = 0; C.world.consoleEof = false; C.world.consoleOut.clear();
  C.sim.out.clear(); C.sim.out.str("");
  C.sim.p->verifSetRunning(true); C.ref.running = true;
  C.rtl.setRegs(dirtyRegs(r.u64())); C.rtl.settle();
  C.rtl.reset();
  C.sim.p->verifSetPC(0); C.sim.p->verifSetAreg(0); C.sim.p->verifSetBreg(0); C.sim.p->verifSetOreg(0);
  C.ref.pc = C.ref.areg = C.ref.breg = C.ref.oreg = 0;
  for (int k = 0; k < 24; k++) if (!C.step() || !C.ref.running) break;
  C.st.fromReset++;
}

static void c03Seq(Co &C, Prng &r) {
  uint32_t base = (uint32_t)r.below(MEM_WORDS * 4 - 16384);
  uint32_t pc = base + 64 + (uint32_t)r.below(8);
  C.setRegs(Regs{pc, pickVal(r), pickVal(r), 0});
  uint32_t sp = 1000 + (uint32_t)r.below(190000);
  C.poke(1, sp);
  std::string input; int n = (int)r.below(6);
  for (int i = 0; i < n; i++) input.push_back((char)r.below(256));
  C.sim.in.clear(); C.sim.in.str(input);
  C.world = refisa::World(); C.world.consoleIn = input;
  C.sim.out.clear(); C.sim.out.str("");
  C.sim.p->verifSetRunning(true); C.ref.running = true;
  std::vector<bool> gen(8192, false);
  int len = 1 + (int)r.below(300);
  static const unsigned W[] = {0, 1, 2, 3, 3, 4, 4, 5, 6, 7, 8, 9, 10, 11, 13, 13, 14, 14, 14, 14, 15, 15};
  for (int k = 0; k < len; k++) {
    uint32_t cur = C.ref.pc;
    if (cur < base || cur >= base + 8192) { if (r.below(4) != 0) break; }
    if (cur >= base && cur < base + 8188 && !gen[cur - base] && (cur & 3) == 0 && C.ref.oreg == 0 && r.below(25) == 0) {
      // self-modifying code: the first instruction of this word stores a new word over itself; the following
      // instructions must be fetched from the new contents (state planted: breg = this word, areg = the new word)
      uint32_t neww = 0x88u;                       // byte 0 stays STAI 8? no: keep the executing byte as it is
      unsigned k = (unsigned)r.below(8);
      uint8_t self = (uint8_t)(0x80 | k);          // STAI k
      neww = self;
      for (int l = 1; l < 4; l++) {
        unsigned o2 = W[r.below(sizeof(W) / sizeof(W[0]))];
        if (o2 == refisa::OPR || o2 == refisa::STAM || o2 == refisa::STAI || o2 == refisa::LDAI || o2 == refisa::LDBI ||
            o2 == refisa::LDAM || o2 == refisa::LDBM) o2 = refisa::LDAC;
        neww |= (uint32_t)((o2 << 4) | r.below(16)) << (8 * l);
      }
      C.poke(cur >> 2, (uint32_t)self | (r.u32() & 0xFFFFFF00u));          // old contents differ from the new ones
      C.setRegs(Regs{cur, neww, (cur >> 2) - k, 0});
      for (int l = 0; l < 4; l++) gen[cur - base + l] = true;
      if (!C.step()) break;
      continue;
    }
    if (cur >= base && cur < base + 8192 && !gen[cur - base]) {
      bool found = false;
      for (int t = 0; t < 12 && !found; t++) {
        unsigned opc = W[r.below(sizeof(W) / sizeof(W[0]))];
        unsigned nib = (unsigned)r.below(16);
        if (opc == refisa::OPR) nib = (unsigned)r.below(4);
        if (opc == refisa::OPR && nib == 3) {
          uint32_t s = C.ref.mem[1];
          if (C.ref.areg > 2 || s + 3 >= MEM_WORDS || C.ref.oreg != 0) continue;
          if (C.ref.areg == 0 && r.below(4) != 0) continue;
          C.poke(s + 2, C.ref.areg == 2 ? (uint32_t)r.below(256) : r.u32());
          if (C.ref.areg == 1) C.poke(s + 3, (uint32_t)r.below(256));
        }
        C.pokeByte(cur, (uint8_t)((opc << 4) | nib));
        refisa::Pre pre = C.ref.classify();
        if (C.inCommonRange(pre)) {
          bool bad = false;
          for (int i = 0; i < pre.nStores; i++) if (pre.stores[i] == 1) bad = true;
          if (!bad) found = true;
        }
      }
      gen[cur - base] = true;
      if (!found) C.pokeByte(cur, 0x30 | (uint8_t)r.below(16));
    }
    if (!C.step()) break;
  }
}

static void c03Binary(Co &C, const char *path, Stats &st) {
  std::string file = slurp(path);
  if (file.size() < 8) return;
  // fresh memories
  std::memset(C.sim.p->verifMemory(), 0, sizeof(uint32_t) * MEM_WORDS);
  std::fill(C.ref.mem.begin(), C.ref.mem.end(), 0);
  for (uint32_t w = 0; w < RTL_WORDS; w++) C.rtl.poke(w, 0);
  long words = C.ref.loadImage(file);
  if (words < 2) return;
  for (long w = 0; w < words; w++) { C.sim.p->verifMemory()[w] = C.ref.mem[w]; C.rtl.poke((uint32_t)w, C.ref.mem[w]); }
  std::string input = "hex\n7";
  C.sim.in.clear(); C.sim.in.str(input);
  C.world = refisa::World(); C.world.consoleIn = input;
  C.sim.out.clear(); C.sim.out.str("");
  C.sim.p->verifSetRunning(true); C.ref.running = true;
  C.rtl.setRegs(dirtyRegs(0x5EED0000u + (uint64_t)st.binaries)); C.rtl.settle();
  C.rtl.reset();
  C.sim.p->verifSetPC(0); C.sim.p->verifSetAreg(0); C.sim.p->verifSetBreg(0); C.sim.p->verifSetOreg(0);
  C.ref.pc = C.ref.areg = C.ref.breg = C.ref.oreg = 0;
  C.ctx = std::string("binary:") + path;
  for (int k = 0; k < 200000; k++) if (!C.step()) break;
  st.binaries++;
}

static int c03Main(int argc, char **argv) {
  if (argc < 6) { fprintf(stderr, "usage: c03 seed ngrid nseq out [images]\n"); return 3; }
  uint64_t seed = strtoull(argv[2], nullptr, 0);
  long ngrid = atol(argv[3]), nseq = atol(argv[4]);
  const char *outPath = argv[5];
  Stats st;
  Co C((int)(seed & 0x7FFFFFFF) | 1, st);
  for (uint32_t w = 0; w < RTL_WORDS; w++) C.rtl.poke(w, 0);
  {
    C.poke(100, 0x000000D1u);
    C.setRegs(Regs{400, 5, 7, 0});
    C.rtl.settle(); C.rtl.clock();
    Regs r = C.rtl.regs();
    if (r.pc != 401 || r.a != 12) { fprintf(stderr, "self-check failed: pokes are not honoured (pc=%u areg=%u)\n", r.pc, r.a); return 4; }
    C.poke(100, 0);
  }
  for (long sidx = 0; sidx < ngrid; sidx++) {
    for (unsigned byte = 0; byte < 256; byte++) {
      Prng r(seed, 1, (uint64_t)(sidx * 256 + byte));
      C.ctx = "grid:" + std::to_string(sidx * 256 + byte);
      c03Grid(C, r, byte, r.below(50) == 0);
      st.cases++;
    }
    if (sidx % 8 == 0) {
      for (unsigned byte = 0; byte < 256; byte++) {
        Prng r(seed, 3, (uint64_t)(sidx * 256 + byte));
        C.ctx = "from-reset:" + std::to_string(sidx * 256 + byte);
        c03FromReset(C, r, byte);
        st.cases++;
      }
    }
  }
  for (long q = 0; q < nseq; q++) {
    Prng r(seed, 2, (uint64_t)q);
    C.ctx = "seq:" + std::to_string(q);
    c03Seq(C, r);
    st.cases++;
  }
  for (int i = 6; i < argc; i++) { c03Binary(C, argv[i], st); st.cases++; }
  writeStats(outPath, st, seed, "c03");
  return 0;
}

int main(int argc, char **argv) {
  signal(SIGSEGV, onFault);
  signal(SIGBUS, onFault);
  if (argc >= 2 && !strcmp(argv[1], "c16")) return c16Main(argc, argv);
  if (argc >= 2 && !strcmp(argv[1], "c03")) return c03Main(argc, argv);
  fprintf(stderr, "usage: h_rtl c16|c03 ...\n");
  return 3;
}
