// libFuzzer target for hexasm (thorough tier of C10).
#include <cstdint>
#include <sstream>
#include <string>
#include "hexasm.hpp"

namespace { struct LayoutRunaway {}; void hook(size_t pass, size_t n) { if (pass > 8 * n + 64) throw LayoutRunaway(); } }

extern "C" int LLVMFuzzerTestOneInput(const uint8_t *data, size_t size) {
  if (size > 4096) return 0;
  hexverif::layoutIteration = hook;
  try {
    hexasm::Lexer lexer;
    hexasm::Parser parser(lexer);
    lexer.loadBuffer(std::string((const char *)data, size));
    auto program = parser.parseProgram();
    hexasm::CodeGen cg(program);
    std::ostringstream os;
    cg.emitProgramText(os);
    cg.emitProgramBin(os);
    cg.emitDebugInfo(os);
  } catch (const std::exception &) {
  }
  return 0;
}
