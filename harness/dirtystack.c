/* LD_PRELOAD shim: before main runs, fill ~6 MiB of stack below the current
 * frame with a seeded pattern, so that objects main later places there (hexsim
 * keeps its 800 KB Processor on the stack) start from dirty memory. */
#include <stdlib.h>
#include <string.h>
#include <stdint.h>

static void __attribute__((noinline)) scribble(uint32_t seed) {
  volatile unsigned char buf[6u << 20];
  uint32_t x = seed * 2654435761u + 12345u;
  int mode = seed % 4;
  for (size_t i = 0; i < sizeof buf; i++) {
    if (mode == 0) buf[i] = 0xFF;
    else if (mode == 1) buf[i] = 0xA5;
    else { x ^= x << 13; x ^= x >> 17; x ^= x << 5; buf[i] = (unsigned char)x; }
  }
  __asm__ volatile("" : : "r"(buf) : "memory");
}

__attribute__((constructor)) static void dirtystack_init(void) {
  const char *s = getenv("DIRTYSTACK_SEED");
  scribble(s ? (uint32_t)strtoul(s, 0, 0) : 1u);
}
