// Small deterministic PRNG; every case derives its own stream from
// (seed, family, index) so a single case can be replayed alone.
#ifndef VERIF_PRNG_HPP
#define VERIF_PRNG_HPP
#include <cstdint>

struct Prng {
  uint64_t s;
  static uint64_t mix(uint64_t z) {
    z += 0x9E3779B97F4A7C15ull;
    z = (z ^ (z >> 30)) * 0xBF58476D1CE4E5B9ull;
    z = (z ^ (z >> 27)) * 0x94D049BB133111EBull;
    return z ^ (z >> 31);
  }
  Prng(uint64_t seed, uint64_t family = 0, uint64_t index = 0) {
    s = mix(mix(mix(seed) ^ (family * 0x632BE59BD9B4E019ull)) ^ (index * 0xD1342543DE82EF95ull));
  }
  uint64_t u64() { s += 0x9E3779B97F4A7C15ull; uint64_t z = s;
    z = (z ^ (z >> 30)) * 0xBF58476D1CE4E5B9ull; z = (z ^ (z >> 27)) * 0x94D049BB133111EBull; return z ^ (z >> 31); }
  uint32_t u32() { return (uint32_t)(u64() >> 32); }
  uint64_t below(uint64_t n) { return n ? u64() % n : 0; }
  long long range(long long lo, long long hi) { return lo + (long long)below((uint64_t)(hi - lo + 1)); }
};
#endif
