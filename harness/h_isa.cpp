// C02: lock-step comparison of hexsim::Processor (through the HEX_VERIF hook)
// against the reference ISA model, one instruction at a time.
//
// usage: h_isa <seed> <ngrid_states> <nseq> <nsys> <out.json> [--only mode:index]
// Runs in the current directory (simin<k>/simout<k> files are created here).
#include <cstdio>
#include <cstdlib>
#include <fstream>
#include <memory>
#include <sstream>
#include <string>
#include <vector>
#include <unistd.h>
#include <csetjmp>
#include <csignal>

#include "hexsim.hpp"
#include "refisa.hpp"
#include "caseio.hpp"
#include "prng.hpp"

using refisa::MEM_WORDS;

static const uint32_t CORNERS[] = {
  0, 1, 2, 3, 4, 15, 16, 17, 255, 256, 257, 4095, 4096, 4097, 65535, 65536, 65537,
  0xFFFFF, 0x100000, 0xFFFFFF, 0x1000000, 0xFFFFFFF, 0x10000000,
  0x7FFFFFFF, 0x80000000u, 0x80000001u, 0xFFFFFFFFu, 0xFFFFFFFEu, 0xFFFFFFF0u, 0xFFFFFFEFu,
  0xFFFFFF00u, 0xFFFFFEFFu, 0xFFFFF000u, 0xFFFF0000u, 0xFFFEFFFFu, 0xFFF00000u, 0xF0000000u,
  199999, 200000, 199998, 799999, 800000, 799996, 0x40000000, 0xC0000000u, 0x7FFF0000, 0x0000FFF0
};
static const size_t NCORNERS = sizeof(CORNERS) / sizeof(CORNERS[0]);

// A crash inside the simulator on a defined instruction is a finding about that instruction, not the end of the run:
// the faulting signal is turned into a recorded mismatch and the simulator object is rebuilt from the reference memory.
static sigjmp_buf g_jmp;
static volatile sig_atomic_t g_armed = 0;
static void onFault(int sig) {
  if (g_armed) siglongjmp(g_jmp, sig);
  signal(sig, SIG_DFL);
  raise(sig);
}

struct Stats {
  uint64_t steps = 0, cases = 0, filtered[6] = {0, 0, 0, 0, 0, 0};
  uint64_t opcTable[16][3] = {};     // opcode x oreg class (zero, positive, negative)
  uint64_t brTaken = 0, brNot = 0, stores = 0, loads = 0;
  uint64_t sysByNum[3] = {0, 0, 0}, sysConsole = 0, sysFile = 0, sysNegStream = 0, sysEof = 0;
  bool byteSeen[256] = {};
  uint64_t archReached = 0;
  uint64_t maxChain = 0;
  std::vector<std::string> mismatches;
  std::vector<std::string> samples;
  uint64_t nmismatch = 0;
};

struct Sim {
  std::istringstream in;
  std::ostringstream out;
  std::unique_ptr<hexsim::Processor> p;
  std::string inContent;
  void fresh(const std::string &input) {
    p.reset();
    inContent = input;
    in.clear(); in.str(input);
    out.clear(); out.str("");
    p.reset(new hexsim::Processor(in, out));
    std::memset(p->verifMemory(), 0, sizeof(uint32_t) * MEM_WORDS);
    p->verifObserver = [](hexsim::Processor &) { return false; };
  }
  void setInput(const std::string &input) {
    inContent = input;
    in.clear(); in.str(input);
  }
  size_t consumed() {
    if (in.fail() || in.eof()) return inContent.size();
    auto g = in.tellg();
    return g < 0 ? inContent.size() : (size_t)g;
  }
};

static std::string stateJson(uint32_t pc, uint32_t a, uint32_t b, uint32_t o) {
  vio::Json j;
  j.unum("pc", pc).unum("areg", a).unum("breg", b).unum("oreg", o);
  return j.done();
}

struct Lock {
  Sim sim;
  refisa::Machine ref;
  refisa::World world;
  Stats &st;
  std::string ctx;
  int chain = 0;
  Lock(Stats &s) : st(s) { ref.world = &world; }

  void poke(uint32_t w, uint32_t v) { sim.p->verifMemory()[w] = v; ref.mem[w] = v; }
  void pokeByte(uint32_t a, uint8_t b) {
    uint32_t w = a >> 2, sh = (a & 3) * 8;
    uint32_t v = (ref.mem[w] & ~(0xFFu << sh)) | ((uint32_t)b << sh);
    poke(w, v);
  }
  void setRegs(uint32_t pc, uint32_t a, uint32_t b, uint32_t o) {
    sim.p->verifSetPC(pc); sim.p->verifSetAreg(a); sim.p->verifSetBreg(b); sim.p->verifSetOreg(o);
    ref.pc = pc; ref.areg = a; ref.breg = b; ref.oreg = o;
  }
  void mismatch(const std::string &what, const refisa::Pre &pre, uint32_t pc0, uint32_t a0, uint32_t b0,
                uint32_t o0, const std::string &detail) {
    st.nmismatch++;
    if (st.mismatches.size() < 20) {
      vio::Json j;
      char ib[8]; snprintf(ib, sizeof ib, "0x%02x", pre.inst);
      j.str("what", what).str("ctx", ctx).str("inst", ib).str("opc", refisa::opcName(pre.inst >> 4))
       .raw("before", stateJson(pc0, a0, b0, o0))
       .raw("ref_after", stateJson(ref.pc, ref.areg, ref.breg, ref.oreg))
       .raw("sim_after", stateJson(sim.p->verifGetPC(), sim.p->verifGetAreg(), sim.p->verifGetBreg(), sim.p->verifGetOreg()))
       .str("detail", detail);
      st.mismatches.push_back(j.done());
    }
  }

  // One lock-step instruction.  Returns false when the case must end
  // (filtered, finished, or mismatch).
  bool step() {
    refisa::Pre pre = ref.classify();
    if (pre.cls != refisa::DEFINED) { st.filtered[pre.cls]++; return false; }
    uint32_t pc0 = ref.pc, a0 = ref.areg, b0 = ref.breg, o0 = ref.oreg;
    unsigned opc = pre.inst >> 4;
    st.byteSeen[pre.inst] = true;
    st.opcTable[opc][o0 == 0 ? 0 : ((int32_t)o0 < 0 ? 2 : 1)]++;
    if (opc == refisa::PFIX || opc == refisa::NFIX) { chain++; if ((uint64_t)chain > st.maxChain) st.maxChain = chain; }
    else chain = 0;
    size_t outBefore = world.consoleOut.size();
    bool threw = false; std::string thrown;
    int rv = 0;
    g_armed = 1;
    int sig = sigsetjmp(g_jmp, 1);
    if (sig == 0) {
      try { rv = sim.p->run(); } catch (std::exception &e) { threw = true; thrown = e.what(); }
      g_armed = 0;
    } else {
      g_armed = 0;
      ref.step();
      st.steps++;
      mismatch("simulator-crash", pre, pc0, a0, b0, o0, "signal " + std::to_string(sig));
      // rebuild the simulator from the reference state (the old object is abandoned, not destroyed)
      (void)sim.p.release();
      sim.fresh(sim.inContent);
      std::memcpy(sim.p->verifMemory(), ref.mem.data(), sizeof(uint32_t) * MEM_WORDS);
      return false;
    }
    ref.step();
    st.steps++;
    st.loads += pre.nLoads; st.stores += pre.nStores;
    if (opc >= refisa::BR && opc <= refisa::BRN) { if (ref.pc != pc0 + 1) st.brTaken++; else st.brNot++; }
    if (threw) { mismatch("exception", pre, pc0, a0, b0, o0, thrown); return false; }
    bool ok = true;
    if (sim.p->verifGetPC() != ref.pc || sim.p->verifGetAreg() != ref.areg ||
        sim.p->verifGetBreg() != ref.breg || sim.p->verifGetOreg() != ref.oreg) {
      mismatch("registers", pre, pc0, a0, b0, o0, ""); ok = false;
    }
    for (int i = 0; i < pre.nStores; i++) {
      uint32_t w = pre.stores[i];
      if (sim.p->verifMemory()[w] != ref.mem[w]) {
        mismatch("store", pre, pc0, a0, b0, o0, "word " + std::to_string(w) + " ref " + std::to_string(ref.mem[w]) +
                 " sim " + std::to_string(sim.p->verifMemory()[w]));
        ok = false;
      }
    }
    // the words around the access must be untouched
    for (int i = 0; i < pre.nStores; i++) {
      for (int d = -1; d <= 1; d += 2) {
        uint32_t w = pre.stores[i] + d;
        if (w < MEM_WORDS && sim.p->verifMemory()[w] != ref.mem[w]) {
          mismatch("store-neighbour", pre, pc0, a0, b0, o0, "word " + std::to_string(w));
          ok = false;
        }
      }
    }
    if (pre.isSvc) {
      st.sysByNum[a0]++;
      if (a0 != 0) {
        uint32_t sp = ref.mem[1];
        int32_t stream = (int32_t)ref.mem[sp + (a0 == 1 ? 3 : 2)];
        if (stream < 0) st.sysNegStream++;
        if (stream < 256) st.sysConsole++; else st.sysFile++;
      }
      if (sim.out.str() != world.consoleOut) {
        mismatch("console-output", pre, pc0, a0, b0, o0,
                 "ref " + vio::Json::hexOf(world.consoleOut.substr(outBefore)) + " sim-total " + vio::Json::hexOf(sim.out.str()));
        ok = false;
      }
      if (sim.consumed() != world.consolePos) {
        mismatch("input-position", pre, pc0, a0, b0, o0,
                 "ref " + std::to_string(world.consolePos) + " sim " + std::to_string(sim.consumed()));
        ok = false;
      }
      if (world.consoleEof) st.sysEof++;
    }
    if (sim.p->verifRunning() != ref.running) {
      mismatch("running", pre, pc0, a0, b0, o0, ""); ok = false;
    }
    if (!ref.running) {
      if ((uint32_t)rv != ref.exitValue || (uint32_t)sim.p->verifExitCode() != ref.exitValue) {
        mismatch("exit-value", pre, pc0, a0, b0, o0,
                 "ref " + std::to_string(ref.exitValue) + " run() " + std::to_string(rv));
        ok = false;
      }
      return false;
    }
    return ok;
  }
};

static uint32_t pickVal(Prng &r) {
  switch (r.below(4)) {
  case 0: return CORNERS[r.below(NCORNERS)];
  case 1: return CORNERS[r.below(NCORNERS)] + (uint32_t)r.range(-2, 2);
  case 2: return (uint32_t)r.below(MEM_WORDS);
  default: return r.u32();
  }
}
static uint32_t pickPc(Prng &r) {
  static const uint32_t P[] = {0, 1, 2, 3, 4, 7, 65535, 65536, 65537, 0x1FFFFE, 0x1FFFFF, 0x200000,
                               799999, 799998, 799997, 799996, 400000, 12345, 262143, 262144};
  if (r.below(3) == 0) return P[r.below(sizeof(P) / sizeof(P[0]))];
  return (uint32_t)r.below(MEM_WORDS * 4);
}
static uint32_t pickWordIn(Prng &r) {
  static const uint32_t W[] = {0, 1, 2, 3, 15, 16, 255, 256, 4095, 4096, 65535, 65536, 199999, 199998, 199990, 131072};
  if (r.below(3) == 0) return W[r.below(sizeof(W) / sizeof(W[0]))];
  return (uint32_t)r.below(MEM_WORDS);
}

// ---------------------------------------------------------------- grid mode
static void gridCase(Lock &L, Prng &r, unsigned byte, bool viaArch) {
  unsigned opc = byte >> 4, nib = byte & 15;
  uint32_t pc = pickPc(r), a = pickVal(r), b = pickVal(r), o = pickVal(r);
  if (r.below(3) == 0) o = 0;
  else if (r.below(2) == 0) o &= ~0xFu;          // reachable prefix state
  bool shape = r.below(10) < 8;                  // make the access land in range
  if (shape) {
    uint32_t t = pickWordIn(r);
    switch (opc) {
    case refisa::LDAM: case refisa::LDBM: case refisa::STAM: o = t & ~0xFu; if ((o | nib) >= MEM_WORDS) o = 0; break;
    case refisa::LDAI: a = t - (o | nib); break;
    case refisa::LDBI: case refisa::STAI: b = t - (o | nib); break;
    case refisa::OPR:
      o = 0;
      if (nib > 3) { o = 0; }
      if (nib == 3 || (nib < 3 && r.below(4) == 0)) { /* SVC candidates */ }
      break;
    default: break;
    }
  }
  if (opc == refisa::OPR && r.below(4) != 0) o = r.below(4) == 0 ? (uint32_t)r.below(4) & ~nib : 0;
  // keep the instruction word and the system-call slots away from each other
  L.pokeByte(pc < MEM_WORDS * 4 ? pc : 0, (uint8_t)byte);
  if (opc == refisa::OPR && ((o | nib) == 3)) {
    a = r.below(8) == 0 ? pickVal(r) : (uint32_t)r.below(3);
    uint32_t sp = r.below(8) == 0 ? pickVal(r) : pickWordIn(r);
    if (sp == (pc >> 2) || sp + 1 == (pc >> 2) || sp + 2 == (pc >> 2) || sp + 3 == (pc >> 2)) sp = (pc >> 2) + 8;
    L.poke(1, sp);
    static const uint32_t S[] = {0, 1, 255, 256, 257, 511, 512, 2047, 2048, 0x7FFFFFFF, 0x80000000u, 0xFFFFFFFFu, 0xFFFFFF00u};
    uint32_t stream = S[r.below(6)];             // console + low files in grid mode
    // slot indices wrap in 32 bits: every slot that is written must itself be inside memory
    if ((uint32_t)(sp + 1) < MEM_WORDS && (uint32_t)(sp + 2) < MEM_WORDS && (uint32_t)(sp + 3) < MEM_WORDS &&
        sp + 1 != 1 && sp + 2 != 1 && sp + 3 != 1) {
      if (a == 1) { L.poke(sp + 2, r.u32()); L.poke(sp + 3, stream < 256 || (int32_t)stream < 0 ? stream : S[r.below(3)]); }
      else if (a == 2) { L.poke(sp + 2, S[r.below(3)]); }
      else L.poke(sp + 2, pickVal(r));
    }
    L.pokeByte(pc < MEM_WORDS * 4 ? pc : 0, (uint8_t)byte); // re-assert in case slots overlapped
  }
  std::string input;
  int n = (int)r.below(4);
  for (int i = 0; i < n; i++) input.push_back((char)r.below(256));
  L.sim.setInput(input);
  L.world.consoleIn = input; L.world.consolePos = 0; L.world.consoleEof = false;
  L.world.consoleOut.clear(); L.sim.out.clear(); L.sim.out.str("");
  L.sim.p->verifSetRunning(true); L.ref.running = true;
  if (viaArch && pc >= 64 && pc < MEM_WORDS * 4 - 64) {
    // Reach the same state architecturally: preamble at a scratch location
    //   <prefixes> LDAC a ; <prefixes> LDBC b ; <prefixes> BR to pc ; (then oreg prefixes cannot be planted: require o == 0)
    if (o != 0) { o = 0; }
    uint32_t base = (pc > 400000) ? 1000 : 600000;
    std::vector<uint8_t> code;
    auto emit = [&](unsigned opcode, uint32_t v) {
      // canonical encoding as in the ISA description: prefixes from the top nibble down
      int nn = 8; while (nn > 1 && ((v >> ((nn - 1) * 4)) & 0xF) == 0) nn--;
      for (int i = nn - 1; i >= 1; i--) code.push_back((uint8_t)(0xE0 | ((v >> (i * 4)) & 0xF)));
      code.push_back((uint8_t)((opcode << 4) | (v & 0xF)));
    };
    emit(refisa::LDAC, a);
    emit(refisa::LDBC, b);
    // BR: operand = pc - (address after BR); the BR chain is always 8 bytes so its length is known
    uint32_t after = base + (uint32_t)code.size() + 8;
    uint32_t off = pc - after;
    for (int i = 7; i >= 1; i--) code.push_back((uint8_t)(0xE0 | ((off >> (i * 4)) & 0xF)));
    code.push_back((uint8_t)(0x90 | (off & 0xF)));
    for (size_t i = 0; i < code.size(); i++) L.pokeByte(base + (uint32_t)i, code[i]);
    L.pokeByte(pc, (uint8_t)byte);
    L.setRegs(base, r.u32(), r.u32(), 0);
    for (size_t i = 0; i < code.size(); i++) if (!L.step()) return;
    if (L.ref.pc != pc || L.ref.areg != a || L.ref.breg != b || L.ref.oreg != 0) {
      fprintf(stderr, "internal: preamble did not reach the state\n"); exit(4);
    }
    L.st.archReached++;
  } else {
    L.setRegs(pc, a, b, o);
  }
  L.step();
}

// ---------------------------------------------------------------- sequences
static void seqCase(Lock &L, Prng &r) {
  uint32_t base = (uint32_t)r.below(MEM_WORDS * 4 - 8192 - 128);   // the whole generated window lies inside memory
  uint32_t pc = base + 64 + (uint32_t)r.below(8);
  L.setRegs(pc, pickVal(r), pickVal(r), 0);
  uint32_t sp = 1000 + (uint32_t)r.below(190000);
  L.poke(1, sp);
  std::string input;
  int n = (int)r.below(6);
  for (int i = 0; i < n; i++) input.push_back((char)r.below(256));
  L.sim.setInput(input);
  L.world = refisa::World();
  L.world.consoleIn = input;
  L.sim.out.clear(); L.sim.out.str("");
  L.sim.p->verifSetRunning(true); L.ref.running = true;
  std::vector<bool> gen(8192, false);  // bytes base..base+8191 generated lazily
  int len = 1 + (int)r.below(400);
  static const unsigned W[] = {0, 1, 2, 3, 3, 4, 4, 5, 6, 7, 8, 9, 10, 11, 13, 13, 14, 14, 14, 14, 15, 15};
  for (int k = 0; k < len; k++) {
    uint32_t cur = L.ref.pc;
    if (cur < base || cur >= base + 8192) {
      if (r.below(4) != 0) break;       // mostly stay inside the generated window
    }
    if (cur >= base && cur < base + 8188 && !gen[cur - base] && (cur & 3) == 0 && L.ref.oreg == 0 && r.below(25) == 0) {
      // self-modifying code: STAI k as the first instruction of a word overwrites that very word
      unsigned k = (unsigned)r.below(8);
      uint8_t self = (uint8_t)(0x80 | k);
      uint32_t neww = self;
      for (int l = 1; l < 4; l++) {
        unsigned o2 = W[r.below(sizeof(W) / sizeof(W[0]))];
        if (o2 == refisa::OPR || o2 == refisa::STAM || o2 == refisa::STAI || o2 == refisa::LDAI || o2 == refisa::LDBI ||
            o2 == refisa::LDAM || o2 == refisa::LDBM) o2 = refisa::LDAC;
        neww |= (uint32_t)((o2 << 4) | r.below(16)) << (8 * l);
      }
      L.poke(cur >> 2, (uint32_t)self | (r.u32() & 0xFFFFFF00u));
      L.setRegs(cur, neww, (cur >> 2) - k, 0);
      for (int l = 0; l < 4; l++) gen[cur - base + l] = true;
      if (!L.step()) break;
      continue;
    }
    if (cur >= base && cur < base + 8192 && cur < MEM_WORDS * 4 && !gen[cur - base]) {
      // choose a byte that is defined and in range from the current state
      bool found = false;
      for (int t = 0; t < 12 && !found; t++) {
        unsigned opc = W[r.below(sizeof(W) / sizeof(W[0]))];
        unsigned nib = (unsigned)r.below(16);
        if (opc == refisa::OPR) nib = (unsigned)r.below(4);
        uint8_t byte = (uint8_t)((opc << 4) | nib);
        if (opc == refisa::OPR && nib == 3) {
          // system call: plant arguments (console streams only here)
          uint32_t s = L.ref.mem[1];
          if (L.ref.areg > 2 || s + 3 >= MEM_WORDS || L.ref.oreg != 0) continue;
          if (L.ref.areg == 0 && r.below(4) != 0) continue;   // do not exit too early
          L.poke(s + 2, L.ref.areg == 2 ? (uint32_t)r.below(256) : r.u32());
          if (L.ref.areg == 1) L.poke(s + 3, (uint32_t)r.below(256));
        }
        L.pokeByte(cur, byte);
        refisa::Pre pre = L.ref.classify();
        if (pre.cls == refisa::DEFINED) {
          // avoid stores that hit the stack-pointer word (keeps sequences alive), allow everything else
          bool bad = false;
          for (int i = 0; i < pre.nStores; i++) if (pre.stores[i] == 1) bad = true;
          if (!bad) found = true;
        }
      }
      gen[cur - base] = true;
      if (!found) L.pokeByte(cur, 0x30 | (uint8_t)r.below(16)); // LDAC n: always defined
    }
    if (!L.step()) break;
  }
}

// ---------------------------------------------------------------- syscall sequences
static bool fileExists(const char *p) { return access(p, F_OK) == 0; }
static std::string slurp(const char *p) {
  std::ifstream f(p, std::ios::binary);
  std::stringstream ss; ss << f.rdbuf(); return ss.str();
}

static void sysCase(Stats &st, Prng &r, const std::string &ctx) {
  for (int k = 0; k < 8; k++) {
    std::string n = "simout" + std::to_string(k); unlink(n.c_str());
    n = "simin" + std::to_string(k); unlink(n.c_str());
  }
  Lock L(st);
  L.ctx = ctx;
  // Each file index gets one role per sequence: the ISA's simin/simout share a
  // slot per index, and using one index both ways (or reading a file that
  // does not exist) has no defined meaning in the reference listing.
  int role[8]; // 0 input (file present), 1 output
  for (int k = 0; k < 8; k++) {
    role[k] = (int)r.below(2);
    if (role[k] == 0) {
      std::string c; int n = (int)r.below(5);
      for (int i = 0; i < n; i++) c.push_back((char)r.below(256));
      L.world.fileIn[k] = c; L.world.fileInPresent[k] = true;
      std::ofstream f("simin" + std::to_string(k), std::ios::binary); f << c;
    }
  }
  std::string input; int n = (int)r.below(5);
  for (int i = 0; i < n; i++) input.push_back((char)r.below(256));
  L.sim.fresh(input);
  L.world.consoleIn = input;
  static const uint32_t S[] = {0, 1, 255, 256, 257, 511, 512, 768, 1024, 1280, 1536, 1792, 2047, 2048, 2304, 4096,
                               65536 + 256, 0x7FFFFFFF, 0x80000000u, 0xFFFFFFFFu, 0xFFFFFF00u, 0xFFFFFE00u};
  int len = 1 + (int)r.below(30);
  uint32_t pc = 4000;
  bool ended = false;
  for (int k = 0; k < len && !ended; k++) {
    uint32_t num = (uint32_t)r.below(3);
    if (num == 0 && k != len - 1) num = 1 + (uint32_t)r.below(2);
    uint32_t sp = 100 + (uint32_t)r.below(199000);
    if (sp + 4 >= 1000 && sp <= 1010) sp += 64;      // keep the argument slots away from the words holding the SVC bytes (pc 4000..4031)
    L.poke(1, sp);
    uint32_t stream = S[r.below(sizeof(S) / sizeof(S[0]))];
    if (r.below(3) == 0) stream = (uint32_t)r.below(4096);
    if ((int32_t)stream >= 256 && num != 0) {
      // route to an index whose role matches the operation
      int f = (stream >> 8) & 7, want = num == 1 ? 1 : 0, tries = 0;
      while (role[f] != want && tries++ < 8) { stream += 256; f = (stream >> 8) & 7; }
      if (role[f] != want) stream &= 0xFF;
    }
    if (num == 1) { L.poke(sp + 2, r.u32()); L.poke(sp + 3, stream); }
    else if (num == 2) { L.poke(sp + 2, stream); L.poke(sp + 1, r.u32()); }
    else L.poke(sp + 2, pickVal(r));
    L.pokeByte(pc, 0xD3);
    L.setRegs(pc, num, r.u32(), 0);
    if (getenv("H_ISA_DEBUG"))
      fprintf(stderr, "%s: call %d num=%u stream=%d (0x%x) sp=%u arg=%u\n", ctx.c_str(), k, num, (int)stream, stream, sp, L.ref.mem[sp + 2]);
    if (!L.step()) ended = true;
    pc++;
  }
  // flush the simulator's files by destroying it, then compare them
  L.sim.p.reset();
  for (int k = 0; k < 8; k++) {
    std::string nm = "simout" + std::to_string(k);
    bool ex = fileExists(nm.c_str());
    bool want = L.world.slot[k] == 1;
    std::string got = ex ? slurp(nm.c_str()) : "";
    if (ex != want || got != L.world.fileOut[k]) {
      st.nmismatch++;
      if (st.mismatches.size() < 20) {
        vio::Json j;
        j.str("what", "simout-file").str("ctx", ctx).num("index", k).boolean("exists", ex).boolean("expected_exists", want)
         .hex("got", got).hex("expected", L.world.fileOut[k]);
        st.mismatches.push_back(j.done());
      }
    }
  }
}

// ---------------------------------------------------------------- load()
static void loadCase(Stats &st, Prng &r, const std::string &ctx) {
  // hexsim::Processor::load against an independent parse of the file format.
  uint32_t words = (uint32_t)r.below(300);
  std::string file;
  vio::le32(file, words);
  for (uint32_t i = 0; i < words; i++) vio::le32(file, r.u32());
  { std::ofstream f("load.bin", std::ios::binary); f << file; }
  Sim sim; sim.fresh("");
  for (uint32_t i = 0; i < words + 8; i++) sim.p->verifMemory()[i] = 0;
  sim.p->load("load.bin");
  refisa::Machine ref;
  long n = ref.loadImage(file);
  bool ok = n == (long)words;
  for (uint32_t i = 0; ok && i < words + 8; i++) if (sim.p->verifMemory()[i] != ref.mem[i]) ok = false;
  st.steps++;
  if (!ok) {
    st.nmismatch++;
    vio::Json j; j.str("what", "load").str("ctx", ctx).num("words", words);
    if (st.mismatches.size() < 20) st.mismatches.push_back(j.done());
  }
  unlink("load.bin");
}

int main(int argc, char **argv) {
  if (argc < 6) { fprintf(stderr, "usage\n"); return 3; }
  signal(SIGSEGV, onFault);
  signal(SIGBUS, onFault);
  uint64_t seed = strtoull(argv[1], nullptr, 0);
  long ngrid = atol(argv[2]), nseq = atol(argv[3]), nsys = atol(argv[4]);
  const char *outPath = argv[5];
  std::string only;
  for (int i = 6; i + 1 < argc; i++) if (!strcmp(argv[i], "--only")) only = argv[i + 1];
  Stats st;
  auto want = [&](const std::string &tag) { return only.empty() || only == tag; };
  {
    Lock L(st);
    L.sim.fresh("");
    for (long s = 0; s < ngrid; s++) {
      for (unsigned byte = 0; byte < 256; byte++) {
        std::string tag = "grid:" + std::to_string(s * 256 + byte);
        if (!want(tag)) continue;
        Prng r(seed, 1, (uint64_t)(s * 256 + byte));
        L.ctx = tag;
        gridCase(L, r, byte, r.below(50) == 0);
        st.cases++;
      }
    }
    for (long s = 0; s < nseq; s++) {
      std::string tag = "seq:" + std::to_string(s);
      if (!want(tag)) continue;
      Prng r(seed, 2, (uint64_t)s);
      L.ctx = tag;
      seqCase(L, r);
      st.cases++;
    }
  }
  for (long s = 0; s < nsys; s++) {
    std::string tag = "sys:" + std::to_string(s);
    if (!want(tag)) continue;
    Prng r(seed, 3, (uint64_t)s);
    sysCase(st, r, tag);
    st.cases++;
    if (s % 8 == 0) { Prng r2(seed, 4, (uint64_t)s); loadCase(st, r2, "load:" + std::to_string(s)); }
  }
  vio::Json j;
  j.unum("seed", seed).unum("cases", st.cases).unum("steps", st.steps).unum("mismatches", st.nmismatch);
  std::vector<long long> f(st.filtered, st.filtered + 6);
  j.raw("filtered", vio::jsonNumArray(f));
  std::vector<std::string> rows;
  for (int o = 0; o < 16; o++) {
    std::vector<long long> row(st.opcTable[o], st.opcTable[o] + 3);
    rows.push_back(vio::jsonNumArray(row));
  }
  j.raw("opc_table", vio::jsonArray(rows));
  int nb = 0; for (int i = 0; i < 256; i++) nb += st.byteSeen[i];
  j.num("distinct_bytes", nb);
  std::vector<long long> bs; for (int i = 0; i < 256; i++) bs.push_back(st.byteSeen[i]);
  j.raw("bytes_seen", vio::jsonNumArray(bs));
  j.unum("br_taken", st.brTaken).unum("br_not", st.brNot).unum("loads", st.loads).unum("stores", st.stores);
  j.unum("sys_exit", st.sysByNum[0]).unum("sys_write", st.sysByNum[1]).unum("sys_read", st.sysByNum[2]);
  j.unum("sys_console", st.sysConsole).unum("sys_file", st.sysFile).unum("sys_neg_stream", st.sysNegStream).unum("sys_eof", st.sysEof);
  j.unum("arch_reached", st.archReached).unum("max_prefix_chain", st.maxChain);
  j.raw("mismatch_list", vio::jsonArray(st.mismatches));
  FILE *out = fopen(outPath, "wb");
  if (!out) { perror(outPath); return 3; }
  fputs(j.done().c_str(), out); fputc('\n', out);
  fclose(out);
  return 0;
}
