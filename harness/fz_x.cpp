// libFuzzer target for xcmp (thorough tier of C09).  Artifacts are re-run one per
// process in the sanitizer build of h_x to obtain violation keys; reports of
// libFuzzer's own children are not trusted.
#include <cstdint>
#include <cstdio>
#include <sstream>
#include <string>
#include <unistd.h>
#include "hex.hpp"
#include "hexasm.hpp"
#include "xcmp.hpp"

namespace { struct LayoutRunaway {}; void hook(size_t pass, size_t n) { if (pass > 8 * n + 64) throw LayoutRunaway(); } }

extern "C" int LLVMFuzzerTestOneInput(const uint8_t *data, size_t size) {
  if (size > 4096) return 0;
  hexverif::layoutIteration = hook;
  static std::string out = "/tmp/fz_x_" + std::to_string(getpid()) + ".bin";
  std::ostringstream sink;
  try {
    xcmp::Driver driver(sink);
    driver.run(xcmp::DriverAction::EMIT_BINARY, std::string((const char *)data, size), false, out);
  } catch (const std::exception &) {
  }   // anything else (non-std exception, LayoutRunaway) escapes and is reported as a crash
  unlink(out.c_str());
  return 0;
}
