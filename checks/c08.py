"""C08: generated code stays inside its memory regions and balances the stack.

The binaries of well-defined X programs run on the reference ISA model (in
lock-step with hexsim) with address monitors: every fetch/load/store below
word 200000 (the run is stopped *before* an access would leave memory), no
store to a word instructions are fetched from, stores only into the image's
data words or the free memory above the image, stack pointer never above its
load-time value and restored when main returns.  A second monitor runs the
same binaries on hexsim built with -fsanitize=address,undefined."""
import json
import random

from lib import common, xgen, xref, xrun
from lib.common import Verdict
from checks import c01


def build():
    xrun.build()
    return common.build_cxx("h_x", ["h_x.cpp", "repo:hex.cpp"], flavour="san")


def rec_prog(depth, nlocals, kind):
    """Recursion to `depth` with frames of nlocals words."""
    locs = [("var", "v%d" % i) for i in range(nlocals)]
    body = [("ass", ("var", "v%d" % i), ("bin", "+", ("var", "n"), ("num", i))) for i in range(nlocals)]
    tail = ("var", "v%d" % (nlocals - 1)) if nlocals else ("num", 1)
    if kind == "func":
        body.append(("if", ("bin", "<=", ("var", "n"), ("num", 0)), ("ret", ("num", 0)),
                     ("ret", ("bin", "+", ("call", "r", [("bin", "-", ("var", "n"), ("num", 1))]), ("num", 1)))))
        procs = [{"kind": "func", "name": "r", "formals": [("val", "n")], "locals": locs, "body": ("seq", body)},
                 {"kind": "proc", "name": "main", "formals": [], "locals": [],
                  "body": ("sysst", 0, [("bin", "-", ("call", "r", [("num", depth)]), ("num", depth))])}]
    else:
        body.append(("if", ("bin", "<=", ("var", "n"), ("num", 0)), ("skip",),
                     ("callst", "r", [("bin", "-", ("var", "n"), ("num", 1))])))
        body.append(("ass", ("var", "g"), ("bin", "+", ("var", "g"), tail if nlocals else ("num", 1))))
        procs = [{"kind": "proc", "name": "r", "formals": [("val", "n")], "locals": locs, "body": ("seq", body)},
                 {"kind": "proc", "name": "main", "formals": [], "locals": [],
                  "body": ("seq", [("ass", ("var", "g"), ("num", 0)), ("callst", "r", [("num", depth)]),
                                   ("sysst", 1, [("var", "g"), ("num", 0)])])}]
    return {"globals": [("var", "g")], "procs": procs}


def array_fill_prog(total_words, narr, leave_style, rnd):
    """Global arrays occupying the top of memory; writes to the first and last element of each."""
    sizes = []
    rest = total_words
    for i in range(narr - 1):
        s = rnd.randrange(1, max(2, rest // 2))
        sizes.append(s)
        rest -= s
    sizes.append(max(1, rest))
    globs = [("array", "a%d" % i, ("num", s)) for i, s in enumerate(sizes)]
    body = []
    for i, s in enumerate(sizes):
        body.append(("ass", ("sub", "a%d" % i, ("num", 0)), ("num", 1 + i)))
        body.append(("ass", ("sub", "a%d" % i, ("num", s - 1)), ("num", 100 + i)))
    chk = ("num", 0)
    for i, s in enumerate(sizes):
        chk = ("bin", "+", ("sub", "a%d" % i, ("num", s - 1)), chk) if chk != ("num", 0) else ("sub", "a%d" % i, ("num", s - 1))
    if leave_style == "return":
        body.append(("sysst", 1, [chk, ("num", 0)]))
    elif leave_style == "exit":
        body.append(("sysst", 0, [chk]))
    else:
        body.append(("sysst", 1, [chk, ("num", 0)]))
        body.append(("stop",))
    # a helper with a frame so the stack is used below the arrays
    helper = {"kind": "func", "name": "h", "formals": [("val", "x")], "locals": [("var", "t")],
              "body": ("seq", [("ass", ("var", "t"), ("bin", "+", ("var", "x"), ("num", 1))), ("ret", ("var", "t"))])}
    body.insert(0, ("ass", ("sub", "a0", ("num", 0)), ("call", "h", [("num", 4)])))
    return {"globals": globs, "procs": [helper, {"kind": "proc", "name": "main", "formals": [], "locals": [], "body": ("seq", body)}]}


def leave_prog(depth, style):
    """Procedures with empty frames that leave the program at call depth `depth`."""
    procs = []
    for d in range(depth):
        nxt = ("callst", "p%d" % (d + 1), []) if d + 1 < depth else (
            ("stop",) if style == "stop" else (("sysst", 0, [("num", 7)]) if style == "exit" else ("skip",)))
        procs.append({"kind": "proc", "name": "p%d" % d, "formals": [], "locals": [], "body": nxt})
    procs.append({"kind": "proc", "name": "main", "formals": [], "locals": [],
                  "body": ("callst", "p0", []) if depth else (("stop",) if style == "stop" else ("skip",))})
    return {"globals": [], "procs": procs}


def stress_items(tier, rnd):
    items = [(tag, prog, inp, {}) for tag, prog, inp in xgen.reentry_matrix()]
    # bounds tests that guard an array access by short-circuit evaluation, one element past either end
    items += [(tag, prog, inp, {}) for tag, prog, inp in xgen.guard_matrix()]
    depths = [0, 1, 2, 3, 10, 50, 150, 199]
    for d in depths:
        for nl in ([0, 1, 3, 10, 40] if tier != "quick" else [0, 2, 40]):
            for kind in ("func", "proc"):
                items.append(("stress-rec:%d:%d:%s" % (d, nl, kind), rec_prog(d, nl, kind), b"", {}))
    for total in (1, 2, 3, 10, 1000, 100000, 149990, 150000):
        for narr in (1, 2, 3):
            for style in ("return", "exit", "stop"):
                items.append(("stress-arr:%d:%d:%s" % (total, narr, style), array_fill_prog(total, narr, style, rnd), b"", {}))
    for d in range(0, 8):
        for style in ("stop", "exit", "return"):
            items.append(("stress-leave:%d:%s" % (d, style), leave_prog(d, style), b"", {}))
    # calls that store through an array parameter while other actuals need several temporaries
    items += [(tag, prog, b"", {}) for tag, prog in xgen.argclobber_matrix(rnd, tier)]
    # element copies between arrays of different sizes at the top of memory
    items += [(tag, prog, b"", {}) for tag, prog in xgen.arraycopy_matrix(rnd, tier)]
    return items


def judge(rec):
    """-> (status, [(code, text)], facts)"""
    ref = rec["ref"]
    if ref["status"] != "defined":
        return "dropped", [(ref.get("reason", "?"), "")], None
    r = rec["res"]
    if r["status"] != "ok" or not r["out"] or not r["out"].get("ok"):
        return "uncompiled", [], None          # C01/C09 territory
    o = r["out"]
    errs = []
    if o["ended"].startswith("left-range"):
        errs.append(("access-outside-memory", "next instruction after %d would be %s" % (o["cycles"], o["ended"])))
    reg = o["regions"]
    for vv in reg["violations"]:
        errs.append((vv["code"], "pc %d word %d value %d" % (vv["pc"], vv["word"], vv["value"])))
    if reg["main_returned"] and reg["sp_at_main_return"] != reg["sp0"]:
        errs.append(("stack-not-restored", "sp %d at return of main, %d at load" % (reg["sp_at_main_return"], reg["sp0"])))
    return "checked", errs, reg


def worker(job):
    kind, payload, exe = job
    if kind == "random":
        wseed, n = payload
        rnd = random.Random(wseed)
        items = []
        for i in range(n):
            sub = rnd.randrange(1 << 62)
            prog, console, files = xgen.random_program(random.Random(sub))
            items.append(("random:%d" % sub, prog, console, files))
    else:
        items = payload
    recs = xrun.evaluate(items, exe, max_steps=400000)
    out = {"n": len(recs), "checked": 0, "viol": [], "fetch": 0, "load": 0, "sdata": 0, "sfree": 0, "returns": 0,
           "minsp_gap": None, "maxdepth_words": 0, "distinct": set(), "sample": None, "min_array_gap": None, "san_reports": 0}
    for rec in recs:
        status, errs, reg = judge(rec)
        if status != "checked":
            continue
        out["checked"] += 1
        out["fetch"] += reg["fetches"]
        out["load"] += reg["loads"]
        out["sdata"] += reg["stores_data"]
        out["sfree"] += reg["stores_free"]
        out["returns"] += 1 if reg["main_returned"] else 0
        gap = reg["min_sp"] - reg["image_words"]
        out["minsp_gap"] = gap if out["minsp_gap"] is None else min(out["minsp_gap"], gap)
        out["maxdepth_words"] = max(out["maxdepth_words"], reg["sp0"] - reg["min_sp"])
        if reg["fetches"] > 50:
            out["distinct"].add(hash(rec["src"]))
        if out["sample"] is None and len(rec["src"]) < 700:
            out["sample"] = {"source": rec["src"], "regions": {k: reg[k] for k in reg if k != "violations"}}
        err = rec["res"]["err"]
        if "ERROR: AddressSanitizer" in err or "runtime error:" in err:
            out["san_reports"] += 1
            errs.append(("sanitizer", err[-600:]))
        if errs:
            rep = xrun.replay_record(rec)
            rep["why"] = errs[0][1]
            out["viol"].append((errs[0][0], rep))
    out["distinct"] = len(out["distinct"])
    return out


def run(tier, replay=None):
    v = Verdict("C08", tier)
    exe_plain = xrun.build()
    exe_san = build()
    if replay:
        case = json.load(open(replay))["case"]
        prog = xref.parse(case["source"])
        recs = xrun.evaluate([("replay", prog, bytes.fromhex(case["input_hex"]), {})], exe_plain, max_steps=400000)
        st, errs, reg = judge(recs[0])
        print(st, errs)
        return 1 if errs and st == "checked" else 0
    seed = common.seed()
    rnd = random.Random(seed * 77 + 8)
    W = common.NCPU
    nrand = 20000 if tier == "quick" else 400000
    per = max(1, nrand // (W * (1 if tier == "quick" else 10)))
    jobs = [("random", (seed * 900001 + w, per), exe_plain) for w in range(nrand // per)]
    st = stress_items(tier, rnd)
    for ch in c01.chunks(st, W):
        jobs.append(("items", ch, exe_plain))
    # second monitor: the same kinds of binaries on the sanitizer build of hexsim
    nsan = 600 if tier == "quick" else 20000
    for w in range(W):
        jobs.append(("random", (seed * 31337 + w, nsan // W + 1), exe_san))
    for ch in c01.chunks(st, W):
        jobs.append(("items", ch, exe_san))
    outs = common.pmap(worker, jobs)
    gaps = [o["minsp_gap"] for o in outs if o["minsp_gap"] is not None]
    for o in outs:
        v.cov["evaluations"] += o["checked"]
        v.cov["distinct_nontrivial"] += o["distinct"]
        v.count("programs_generated", o["n"])
        v.count("fetches_checked", o["fetch"])
        v.count("loads_checked", o["load"])
        v.count("stores_into_image_data_words", o["sdata"])
        v.count("stores_into_free_memory", o["sfree"])
        v.count("returns_from_main_observed", o["returns"])
        v.count("sanitizer_reports", o["san_reports"])
        v.cov["max_stack_depth_words"] = max(v.cov.get("max_stack_depth_words", 0), o["maxdepth_words"])
        if o["sample"]:
            v.sample(o["sample"], limit=3)
        for code, rep in o["viol"]:
            v.violation(code, rep)
    v.cov["min_distance_stack_pointer_to_image_end_words"] = min(gaps) if gaps else None
    v.cov["stress_programs"] = len(st)
    v.cov["rule"] = ("one evaluation = one well-defined (program, input) run whose every memory access was monitored; "
                     "non-trivial = distinct source with more than 50 instruction fetches")
    v.assumptions = ["code region = from the target of the entry branch to the end of the image (xcmp emits no data after it)",
                     "harness/refisa.hpp memory-access callbacks; -fsanitize=address,undefined build of hexsim as second monitor"]
    if not v.cov.get("returns_from_main_observed"):
        v.inconclusive.append("no return from main observed")
    return v.finish(min_evaluations=1000)
