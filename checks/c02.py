"""C02: hexsim executes every instruction exactly as the Hex ISA defines.

Lock-step of hexsim::Processor (HEX_VERIF hook: planted state, one-instruction
observer) against the reference ISA model (harness/refisa.hpp)."""
import json
import os
import random
import sys

from lib import asmprog, common, xgen, xref
from lib.common import Verdict

OPC = ["LDAM", "LDBM", "STAM", "LDAC", "LDBC", "LDAP", "LDAI", "LDBI", "STAI", "BR", "BRZ", "BRN",
       "0xC", "OPR", "PFIX", "NFIX"]
FILTER = ["defined", "undefined-opcode-0xC", "undefined-OPR", "undefined-SVC", "fetch-out-of-range",
          "data-out-of-range"]


def build():
    common.build_cxx("h_x", ["h_x.cpp", "repo:hex.cpp"])
    common.build_cxx("h_asm", ["h_asm.cpp", "repo:hex.cpp"])
    common.build_cxx("h_sim", ["h_sim.cpp", "repo:hex.cpp"])
    return common.build_cxx("h_isa", ["h_isa.cpp", "repo:hex.cpp"])


def whole_runs(v, tier):
    """(d) whole toolchain binaries in lock-step: compiled X programs (h_x) and hand-written-style assembly (h_sim)."""
    rnd = random.Random(common.seed() * 41 + 2)
    hx = common.build_cxx("h_x", ["h_x.cpp", "repo:hex.cpp"])
    hasm = common.build_cxx("h_asm", ["h_asm.cpp", "repo:hex.cpp"])
    hsim = common.build_cxx("h_sim", ["h_sim.cpp", "repo:hex.cpp"])
    nx, na = (400, 400) if tier == "quick" else (30000, 30000)
    cases = []
    for i in range(nx):
        prog, console, files = xgen.random_program(random.Random(rnd.randrange(1 << 62)))
        f = {"src": xref.render_program(prog), "input": console, "maxcycles": 300000}
        for k, data in files.items():
            f["fin%d" % k] = data
        cases.append((i, f))
    res = common.run_harness(hx, cases, args=["cases"], tag="c02x")
    steps = 0
    for i, f in cases:
        r = res[str(i)]
        if r["status"] != "ok" or not r["out"] or not r["out"].get("ok"):
            continue
        o = r["out"]
        steps += o.get("cycles", 0)
        v.count("whole_runs_compiled_programs")
        if o["isa_mismatches"]:
            v.violation("whole-run:" + str(o["isa_mismatches"][0].get("what", "load") if isinstance(o["isa_mismatches"][0], dict) else "load"),
                        {"source": f["src"][:3000], "mismatch": o["isa_mismatches"][:2]})
        if o["console"] != o["ref_console"] or o["consumed"] != o["ref_consumed"] or \
                (o["ended"] == "exit" and (o["run_return"] & 0xFFFFFFFF) != o["ref_exit"]) or \
                any(fl["data"] != fl["ref"] or not fl["exists"] for fl in o["files"]):
            v.violation("whole-run:io-or-exit", {"source": f["src"][:3000], "console": o["console"], "ref_console": o["ref_console"],
                                                  "run_return": o["run_return"], "ref_exit": o["ref_exit"]})
    aprogs = [asmprog.program(random.Random(rnd.randrange(1 << 62))) for _ in range(na)]
    ares = common.run_harness(hasm, [(i, {"src": t}) for i, (t, _) in enumerate(aprogs)], args=["cases"], tag="c02a")
    acases = []
    for i, (t, inp) in enumerate(aprogs):
        r = ares[str(i)]
        if r["status"] == "ok" and r["out"] and r["out"].get("ok"):
            acases.append((i, {"file": common.unhex(r["out"]["file"]), "input": inp, "fill": 0, "maxcycles": 0, "hardlimit": 300000}))
    sres = common.run_harness(hsim, acases, args=["cases"], tag="c02s")
    for i, f in acases:
        r = sres[str(i)]
        if r["status"] != "ok" or not r["out"]:
            v.violation("whole-run:simulator-abnormal", {"asm": aprogs[i][0][:3000], "status": r["status"], "err": r["err"][-300:]})
            continue
        o = r["out"]
        steps += o["cycles"]
        v.count("whole_runs_assembly_programs")
        if o["ended"] == "mismatch":
            v.violation("whole-run:registers", {"asm": aprogs[i][0][:3000], "mismatch": o["mismatch"]})
    v.count("whole_run_instructions_compared", steps)
    return steps


def run(tier, replay=None):
    v = Verdict("C02", tier)
    exe = build()
    seed = common.seed()
    if replay:
        case = json.load(open(replay))["case"]
        res = common.run_selfgen(exe, [[case["seed"], case["ngrid"], case["nseq"], case["nsys"], "@OUT",
                                        "--only", case["ctx"]]])
        for args, rc, js, err in res:
            print(json.dumps(js.get("mismatch_list") if js else None, indent=1), err)
            return 1 if (rc != 0 or (js and js["mismatches"])) else 0
    W = common.NCPU
    if tier == "quick":
        ngrid, nseq, nsys = 2000 // W + 1, 20000 // W + 1, 8000 // W + 1
    else:
        ngrid, nseq, nsys = 40000 // W + 1, 1000000 // W + 1, 200000 // W + 1
    argsets = [[seed * 1000 + w, ngrid, nseq, nsys, "@OUT"] for w in range(W)]
    res = common.run_selfgen(exe, argsets, tag="c02", timeout=900 if tier == "quick" else 4 * 3600)
    table = [[0, 0, 0] for _ in range(16)]
    bytes_seen = [0] * 256
    filt = [0] * 6
    tot = {}
    for args, rc, js, err in res:
        base = {"seed": args[0], "ngrid": ngrid, "nseq": nseq, "nsys": nsys}
        if rc != 0 or js is None:
            # a simulator fault inside a compared step is caught and reported as a mismatch by the harness itself;
            # anything else that kills the process is a failure of the machinery, not a verdict on the property
            raise common.HarnessError("lock-step worker ended with status %s: %s" % (rc, err[-500:]))
        for k in ("cases", "steps", "br_taken", "br_not", "loads", "stores", "sys_exit", "sys_write",
                  "sys_read", "sys_console", "sys_file", "sys_neg_stream", "sys_eof", "arch_reached"):
            tot[k] = tot.get(k, 0) + js[k]
        tot["max_prefix_chain"] = max(tot.get("max_prefix_chain", 0), js["max_prefix_chain"])
        for o in range(16):
            for c in range(3):
                table[o][c] += js["opc_table"][o][c]
        for i in range(256):
            bytes_seen[i] |= js["bytes_seen"][i]
        for i in range(6):
            filt[i] += js["filtered"][i]
        for m in js["mismatch_list"]:
            key = "%s:%s" % (m["what"], m.get("opc", "-"))
            v.violation(key, dict(base, ctx=m["ctx"], mismatch=m))
        if js["mismatches"] > len(js["mismatch_list"]):
            v.violation("more-mismatches", dict(base, ctx="", count=js["mismatches"]))
    extra = whole_runs(v, tier)
    v.cov["evaluations"] = tot.get("steps", 0) + extra
    v.cov["cases"] = tot.get("cases", 0)
    nb = sum(bytes_seen)
    # distinct non-trivial: (instruction byte x operand-register class) cells that were compared at least once
    cells = sum(1 for o in range(16) for c in range(3) if table[o][c])
    v.cov["distinct_nontrivial"] = nb
    v.cov["rule"] = ("lock-step instruction steps; distinct_nontrivial = distinct instruction bytes executed "
                     "and compared (228 of 256 have a defined meaning from a clear operand register)")
    v.cov["opcode_x_oregclass_cells"] = cells
    v.cov["opcode_table"] = {OPC[o]: {"oreg_zero": table[o][0], "oreg_pos": table[o][1], "oreg_neg": table[o][2]}
                             for o in range(16)}
    v.cov["ended_by_range_filter"] = {FILTER[i]: filt[i] for i in range(1, 6)}
    v.cov.update({k: tot[k] for k in tot if k not in ("steps", "cases")})
    v.cov["exhaustive_instruction_bytes"] = nb >= 228
    v.sample({"mode": "grid", "what": "one planted state per (byte, state index); e.g. worker seed %d, %d states x 256 bytes"
              % (argsets[0][0], ngrid)})
    v.sample({"mode": "seq", "what": "execute-driven random sequences of 1..400 defined instructions, %d per worker" % nseq})
    v.sample({"mode": "sys", "what": "sequences of 1..30 system calls on streams 0..0xFFFFFFFF with simin/simout files, %d per worker" % nsys})
    v.assumptions = ["harness/refisa.hpp is the ISA definition compared against (written from docs/PDFs/hexb.pdf)",
                     "instructions the ISA leaves undefined and accesses at or above word 200000 end a case uncompared",
                     "one stream index is used either for input or for output within a sequence; reads only from existing simin files"]
    if nb < 228:
        v.inconclusive.append("only %d of 228 defined instruction bytes were reached" % nb)
    return v.finish(min_evaluations=10000)
