"""C06: a binary behaves identically on the RTL testbench and on the simulator.

Binaries compiled from well-defined generated X programs (and the shipped
sources) are run with the same input (a) on the real hextb and hexsim
executables built from the tree: stdout after hextb's load banner, simout files
and exit status must match; (b) in-process, hextb.cpp's own load()/run() on a
counting istream against hexsim::Processor: stdout, exit value and the number of
input bytes consumed must match."""
import glob
import json
import os
import random
import subprocess

from lib import asmprog, common, rtl, xgen, xref, xrun
from lib.common import Verdict


def build():
    xrun.build()
    common.build_cli()
    return rtl.build_h_tb()


def gen_items(n, rnd):
    items = []
    for i in range(n):
        sub = rnd.randrange(1 << 62)
        prog, console, files = xgen.random_program(random.Random(sub))
        items.append(("random:%d" % sub, prog, console, files))
        if rnd.random() < 0.5:
            alt = bytes(rnd.choice([rnd.randrange(256), 0x80, 0xFF, 0x41]) for _ in range(rnd.randrange(0, 7)))
            items.append(("random:%d:alt" % sub, prog, alt, files))
    return items


def shipped_items():
    out = []
    for val in (0, 1, 2, 7, 127, 128, 255, 256, 257, -1, -2, -255, -256, 65535, 2147483647, -2147483647):
        lit = "%d" % val if val >= 0 else "(0 - %d)" % -val
        out.append(("exitvalue:%d" % val, xref.parse("val put = 1; proc main() is { put('x', 0); 0(%s) }" % lit), b"", {}))
    for f in sorted(glob.glob(os.path.join(common.REPO, "tests", "x", "*.x"))):
        try:
            prog = xref.parse(open(f).read())
        except xref.ParseError:
            continue
        out.append(("shipped:" + os.path.basename(f), prog, b"A7\n", {}))
    return out


def snapshot(d):
    out = {}
    for n in sorted(os.listdir(d)):
        if n.startswith("simout"):
            out[n] = open(os.path.join(d, n), "rb").read()
    return out


def exe_worker(job):
    cli, recs = job
    bad = []
    n = 0
    nbytes = 0
    partial = 0
    statuses = {}
    for tag, blob, inp, files in recs:
        outs = []
        for tool in ("hexsim", "hextb"):
            d = common.scratch("c06" + tool)
            p = os.path.join(d, "p.bin")
            open(p, "wb").write(blob)
            for k, data in files.items():
                open(os.path.join(d, "simin%d" % k), "wb").write(data)
            cmd = [os.path.join(cli, tool)] + (["+verilator+seed+7", "--max-cycles", "3000000"] if tool == "hextb" else ["--max-cycles", "3000000"]) + [p]
            # standard input is a regular file: what the process leaves of it for the next reader is observable
            rc, out, err, left_at = common.run_file_stdin(cmd, inp, cwd=d, timeout=180)
            if tool == "hextb":
                banner, _, out = out.partition(b"\n")
                if not banner.startswith(b"Wrote "):
                    out = banner + b"\n" + out
            outs.append((out, rc, (snapshot(d), left_at), err[:200]))
            import shutil
            shutil.rmtree(d, ignore_errors=True)
        n += 1
        nbytes += len(outs[0][0])
        statuses[outs[0][1]] = statuses.get(outs[0][1], 0) + 1
        if outs[0][:3] != outs[1][:3]:
            what = "stdout" if outs[0][0] != outs[1][0] else ("status" if outs[0][1] != outs[1][1] else
                                                             ("files" if outs[0][2][0] != outs[1][2][0] else "input-consumed"))
            bad.append((what, {"tag": tag, "input_hex": inp.hex(), "hexsim": [repr(outs[0][0][:80]), outs[0][1], repr(outs[0][3]), outs[0][2][1]],
                               "hextb": [repr(outs[1][0][:80]), outs[1][1], repr(outs[1][3]), outs[1][2][1]]}))
        if outs[0][2][1] is not None and outs[0][2][1] < len(inp):
            partial += 1
    statuses["__partial__"] = partial
    return n, nbytes, bad, statuses


def run(tier, replay=None):
    v = Verdict("C06", tier)
    htb = build()
    hx = xrun.build()
    cli = common.build_cli()
    rnd = random.Random(common.seed() * 61 + 6)
    if replay:
        print("re-run the check with the same VERIF_SEED; the replay file names the program tag (sub-seed)")
        return 2
    nexe, ninp = (1500, 5000) if tier == "quick" else (40000, 200000)
    items = gen_items(int(max(nexe, ninp) * 0.9), rnd) + shipped_items()
    W = common.NCPU
    # reference classification + compile + hexsim in-process facts
    chunks = [items[i::W * 2] for i in range(W * 2)]
    recs = [r for part in common.pmap(_eval_worker, [(c, hx) for c in chunks]) for r in part]
    good = [r for r in recs if r["ref"]["status"] == "defined" and r["res"] and r["res"]["status"] == "ok"
            and r["res"]["out"] and r["res"]["out"].get("ok") and r["res"]["out"]["ended"] == "exit"]
    v.count("programs_generated", len(items))
    v.count("well_defined_and_terminating", len(good))
    # ---- hand-written-style assembly programs (shapes a compiler never emits: adjacent SVCs, backward LDAP as data, BRB tables)
    hasm = common.build_cxx("h_asm", ["h_asm.cpp", "repo:hex.cpp"])
    hsim = common.build_cxx("h_sim", ["h_sim.cpp", "repo:hex.cpp"])
    nasm = 700 if tier == "quick" else 20000
    aprogs = [asmprog.program(random.Random(rnd.randrange(1 << 62))) for _ in range(nasm)]
    ares = common.run_harness(hasm, [(i, {"src": t}) for i, (t, _) in enumerate(aprogs)], args=["cases"], tag="c06asm")
    acases = []
    for i, (t, inp) in enumerate(aprogs):
        r = ares[str(i)]
        if r["status"] == "ok" and r["out"] and r["out"].get("ok"):
            acases.append((i, {"file": common.unhex(r["out"]["file"]), "input": inp, "fill": 0, "maxcycles": 0, "hardlimit": 300000}))
    sres = common.run_harness(hsim, acases, args=["cases"], tag="c06sim")
    asm_good = []
    for i, f in acases:
        o = sres[str(i)]["out"] if sres[str(i)]["status"] == "ok" else None
        if o and o["ended"] == "exit" and o["reads_before_write"] == 0:
            asm_good.append({"tag": "asm:%d" % i, "src": aprogs[i][0], "console": f["input"], "files": {},
                             "res": {"out": {"file": f["file"].hex(), "console": o["console"], "run_return": o["run_return"],
                                             "consumed": o["consumed"], "events": o["events"]}}})
    v.count("assembly_programs_generated", nasm)
    v.count("assembly_programs_terminating_and_well_defined", len(asm_good))
    good = asm_good[:max(1, nexe // 3)] + good
    # ---- (a) executables
    exe_recs = [(r["tag"], common.unhex(r["res"]["out"]["file"]), r["console"], r["files"]) for r in good[:nexe]]
    jobs = [(cli, exe_recs[i::W]) for i in range(W)]
    for n, nbytes, bad, statuses in common.pmap(exe_worker, jobs):
        v.cov["evaluations"] += n
        v.count("executable_pairs", n)
        v.count("stdout_bytes_compared", nbytes)
        v.count("runs_that_left_part_of_their_input_unread", statuses.pop("__partial__", 0))
        for k, c in statuses.items():
            v.hist("exit_statuses_seen", k, c)
        for what, rep in bad:
            v.violation("exe:" + what, rep)
    # ---- (b) in-process with counted input
    inp = good[:ninp]
    cases = []
    for i, r in enumerate(inp):
        if r["files"]:
            continue
        cases.append((i, {"file": common.unhex(r["res"]["out"]["file"]), "input": r["console"], "seed": 11 + i, "plant": "none",
                          "maxcycles": 3000000}))
    res = common.run_harness(htb, cases, args=["cases"], tag="c06", timeout=6 * 3600)
    distinct = set()
    for i, f in cases:
        r = inp[i]
        o = r["res"]["out"]
        t = res[str(i)]
        v.cov["evaluations"] += 1
        v.count("in_process_pairs", 1)
        distinct.add(hash(r["src"]))
        if t["status"] != "ok" or not t["out"]:
            v.violation("inproc:abnormal", {"tag": r["tag"], "status": t["status"], "err": t["err"][-300:], "source": r["src"][:3000]})
            continue
        to = t["out"]
        out = common.unhex(to["stdout"])
        banner, _, rest = out.partition(b"\n")
        v.count("input_bytes_consumed", to["consumed"])
        v.count("syscalls_compared", len(o["events"]))
        errs = []
        if rest != common.unhex(o["console"]):
            errs.append(("stdout", "hextb %r hexsim %r" % (rest[:60], common.unhex(o["console"])[:60])))
        if to["thrown"] or to["status"] != o["run_return"]:
            errs.append(("status", "hextb %s %r hexsim %s" % (to["status"], to["thrown"], o["run_return"])))
        if to["consumed"] != o["consumed"]:
            errs.append(("consumed", "hextb consumed %d hexsim %d" % (to["consumed"], o["consumed"])))
        if errs:
            v.violation("inproc:" + errs[0][0], {"tag": r["tag"], "why": [e[1] for e in errs], "source": r["src"][:3000], "input_hex": r["console"].hex()})
    v.cov["distinct_nontrivial"] = len(distinct)
    v.cov["rule"] = ("one evaluation = one (binary, input) pair run on both hextb and hexsim; non-trivial = distinct source programs "
                     "that the reference semantics deems well-defined and that terminate")
    if good:
        v.sample({"source": good[0]["src"][:800], "input_hex": good[0]["console"].hex()})
    v.assumptions = ["binaries come from programs the reference interpreter deems well-defined (they never read memory they have not written)",
                     "input consumption is measured at the std::istream both tools share"]
    return v.finish(min_evaluations=500)


def _eval_worker(job):
    items, hx = job
    return xrun.evaluate(items, hx)
