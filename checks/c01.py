"""C01: xcmp preserves X source semantics in the binaries it emits.

Generated X programs (random derivations, operand-shape matrices, calling-
convention matrices, shipped sources) are run on the reference interpreter
(lib/xref.py); runs it deems fully defined are compiled by the real
xcmp::Driver, executed on hexsim::Processor under the HEX_VERIF observer, and
the system-call event logs, consumed input and exit value are compared."""
import glob
import json
import os
import random

from lib import common, xgen, xref, xrun
from lib.common import Verdict


def build():
    return xrun.build()


def classify(rec):
    """-> (status, [(code, text)]) status: dropped | compared"""
    ref = rec["ref"]
    if ref["status"] != "defined":
        return "dropped", [(ref.get("reason", "?"), "")]
    r = rec["res"]
    if r["status"] != "ok" or r["out"] is None:
        return "compared", [("compiler-abnormal:" + r["status"].split()[0], (r["status"] + " " + r["err"])[-500:])]
    o = r["out"]
    if not o["ok"]:
        return "compared", [("compiler-rejects:" + o["errtype"], o["err"][:200])]
    return "compared", xrun.compare(ref, o)


def worker(job):
    kind, payload, exe = job
    if kind == "random":
        wseed, n = payload
        rnd = random.Random(wseed)
        items = []
        for i in range(n):
            sub = rnd.randrange(1 << 62)
            prog, console, files = xgen.random_program(random.Random(sub))
            items.append(("random:%d" % sub, prog, console, files))
            if rnd.random() < 0.3:   # same program, another input
                items.append(("random:%d:alt" % sub, prog, bytes(rnd.randrange(256) for _ in range(rnd.randrange(0, 9))), files))
    else:
        items = payload
    recs = xrun.evaluate(items, exe)
    out = {"n": len(recs), "compared": 0, "dropped": {}, "viol": [], "events": 0, "cycles": 0, "nontrivial": set(),
           "features": {}, "sample": None, "families": {}}
    for rec in recs:
        status, errs = classify(rec)
        fam = rec["tag"].split(":")[0]
        out["families"][fam] = out["families"].get(fam, 0) + 1
        if status == "dropped":
            out["dropped"][errs[0][0]] = out["dropped"].get(errs[0][0], 0) + 1
            continue
        out["compared"] += 1
        ref = rec["ref"]
        o = rec["res"]["out"] if rec["res"]["out"] else {}
        out["events"] += len(ref["events"])
        out["cycles"] += o.get("cycles", 0) if o.get("ok") else 0
        for f in ref.get("features", ()):
            out["features"][f] = out["features"].get(f, 0) + 1
        out["features"]["depth-%d" % min(ref["maxdepth"], 20)] = out["features"].get("depth-%d" % min(ref["maxdepth"], 20), 0) + 1
        if len(ref["calls"]) > 1 and ref["steps"] > 20:
            out["nontrivial"].add(hash(rec["src"]))
        if out["sample"] is None and 200 < len(rec["src"]) < 900 and ref["events"]:
            out["sample"] = xrun.replay_record(rec)
        if errs:
            rep = xrun.replay_record(rec)
            rep["why"] = errs[0][1]
            rep["all"] = [e[0] for e in errs]
            out["viol"].append((errs[0][0], rep))
    out["nontrivial"] = len(out["nontrivial"])
    return out


def shipped_items():
    items = []
    for f in sorted(glob.glob(os.path.join(common.REPO, "tests", "x", "*.x"))):
        try:
            prog = xref.parse(open(f).read())
        except xref.ParseError:
            continue
        for inp in (b"", b"A", b"7\n"):
            items.append(("shipped:%s:%s" % (os.path.basename(f), inp.hex()), prog, inp, {}))
    return items


def chunks(lst, n):
    k = max(1, (len(lst) + n - 1) // n)
    return [lst[i:i + k] for i in range(0, len(lst), k)]


def jobs_for(tier, exe):
    seed = common.seed()
    W = common.NCPU
    rnd = random.Random(seed * 31 + 1)
    nrand = 20000 if tier == "quick" else 600000
    jobs = []
    per = max(1, nrand // (W * (1 if tier == "quick" else 12)))
    for w in range(nrand // per):
        jobs.append(("random", (seed * 1000003 + w, per), exe))
    shapes = list(xgen.shape_matrix(tier, rnd))
    items = [(tag, prog, b"", {}) for tag, prog in shapes]
    items += [(tag, prog, b"", {}) for tag, prog in xgen.callconv_matrix(rnd, tier)]
    items += [(tag, prog, b"", {}) for tag, prog in xgen.argclobber_matrix(rnd, tier)]
    items += [(tag, prog, b"", {}) for tag, prog in xgen.arraycopy_matrix(rnd, tier)]
    items += [(tag, prog, inp, {}) for tag, prog, inp in xgen.reentry_matrix()]
    items += [(tag, prog, inp, {}) for tag, prog, inp in xgen.guard_matrix()]
    items += shipped_items()
    for ch in chunks(items, W * (1 if tier == "quick" else 4)):
        jobs.append(("items", ch, exe))
    return jobs


def merge(v, outs):
    dropped = {}
    for o in outs:
        v.cov["evaluations"] += o["compared"]
        v.cov["distinct_nontrivial"] += o["nontrivial"]
        v.count("programs_generated", o["n"])
        v.count("syscall_events_compared", o["events"])
        v.count("isa_instructions_executed", o["cycles"])
        for k, n in o["dropped"].items():
            dropped[k] = dropped.get(k, 0) + n
        for k, n in o["features"].items():
            v.hist("features", k, n)
        for k, n in o["families"].items():
            v.hist("families", k, n)
        if o["sample"]:
            v.sample(o["sample"], limit=3)
        for code, rep in o["viol"]:
            v.violation(code, rep)
    v.cov["discarded_ill_defined_by_reason"] = dropped
    return dropped


def run(tier, replay=None):
    v = Verdict("C01", tier)
    exe = build()
    if replay:
        case = json.load(open(replay))["case"]
        prog = xref.parse(case["source"])
        files = {int(k): bytes.fromhex(x) for k, x in case.get("files", {}).items()}
        recs = xrun.evaluate([("replay", prog, bytes.fromhex(case["input_hex"]), files)], exe)
        status, errs = classify(recs[0])
        print(status, errs)
        return 1 if (status == "compared" and errs) else 0
    outs = common.pmap(worker, jobs_for(tier, exe))
    dropped = merge(v, outs)
    total = v.cov["programs_generated"]
    v.cov["rule"] = ("one evaluation = one (program, input) run the reference deems fully defined, compiled and compared; "
                     "non-trivial = distinct source that made at least one call besides main and ran more than 20 reference steps")
    v.assumptions = ["lib/xref.py (parser + interpreter + ill-definedness filter) is the X semantics compared against",
                     "runs the reference classifies ill-defined or over budget are discarded and counted, never compared"]
    if v.cov["evaluations"] < 0.3 * total:
        v.inconclusive.append("defined yield %d of %d below 30%%" % (v.cov["evaluations"], total))
    return v.finish(min_evaluations=1000)


def listing_part(v, tier):
    """C17 on xcmp -S listings (called from checks/c17.py)."""
    from lib import asmsrc
    exe = build()
    rnd = random.Random(common.seed() + 170)
    n = 1500 if tier == "quick" else 40000
    items = []
    for i in range(n):
        prog, console, files = xgen.random_program(random.Random(rnd.randrange(1 << 62)))
        items.append((i, {"src": xref.render_program(prog), "want": "listing,noexec"}))
    for f in sorted(glob.glob(os.path.join(common.REPO, "tests", "x", "*.x"))):
        items.append((len(items), {"src": open(f).read(), "want": "listing,noexec"}))
    res = common.run_harness(exe, items, args=["cases"], tag="c17x")
    for i, fields in items:
        r = res[str(i)]
        if r["status"] != "ok" or not r["out"] or not r["out"]["ok"] or "listing" not in r["out"]:
            v.count("x_programs_not_compiled")
            continue
        o = r["out"]
        errs, stats = asmsrc.check_listing(o["listing"], common.unhex(o["file"]))
        v.cov["evaluations"] += 1
        v.cov["distinct_nontrivial"] += 1
        v.count("x_listings_checked")
        v.count("listing_lines_instr", stats["instr"])
        v.count("listing_lines_data", stats["data"])
        v.count("listing_lines_label_operand", stats["label_operand"])
        if errs:
            v.violation("x:" + errs[0][0], {"why": errs[0][1], "source": fields["src"][:6000]})
