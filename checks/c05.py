"""C05: every label reference assembles to the address of its label.

Generated assembly programs go through the real Lexer/Parser/CodeGen/emitBin;
the emitted file is decode-walked against the directive list the generator
wrote (lib/asmsrc.decode_walk): label positions come from the walk itself,
never from the assembler's listing."""
import glob
import json
import os
import random

from lib import asmgen, asmsrc, common
from lib.common import Verdict


def build():
    return common.build_cxx("h_asm", ["h_asm.cpp", "repo:hex.cpp"])


def check_one(dirs, res):
    """-> (status, [(code, text)])  status: accepted | rejected | abnormal"""
    if res["status"] != "ok" or res["out"] is None:
        return "abnormal", [("abnormal:" + res["status"].split()[0], res["status"] + " " + res["err"][-400:])]
    o = res["out"]
    if not o["ok"]:
        if o["errtype"] == "layout-runaway":
            return "abnormal", [("layout-runaway", "layout did not converge after %s passes" % o.get("passes"))]
        if o["errtype"] != "Error":
            return "abnormal", [("abnormal:" + o["errtype"], o["err"])]
        return "rejected", [("rejected", o["err"])]
    blob = common.unhex(o["file"])
    w = asmsrc.decode_walk(dirs, blob)
    errs = list(w["errors"])
    if not o.get("reemit_same", True):
        errs.append(("reemit", "emitting the same program twice gave different bytes"))
    return "accepted", errs


def worker(job):
    wseed, n, big, exe = job
    rnd = random.Random(wseed)
    progs = []
    cases = []
    for i in range(n):
        sub = rnd.randrange(1 << 62)
        r = random.Random(sub)
        dirs, meta = asmgen.generate(r, big=big)
        meta["subseed"] = sub
        progs.append((dirs, meta))
        cases.append((i, {"src": asmsrc.render(dirs)}))
    res = common.run_harness_single(exe, cases, args=["cases"], tag="c05")
    out = {"n": n, "accepted": 0, "rejected": 0, "viol": [], "fam": {}, "refs": {}, "passes": {}, "sample": None,
           "rejmsg": {}, "bytes": 0, "distinct": set()}
    for i, (dirs, meta) in enumerate(progs):
        r = res[str(i)]
        status, errs = check_one(dirs, r)
        out["fam"][meta["family"]] = out["fam"].get(meta["family"], 0) + 1
        if status == "accepted":
            out["accepted"] += 1
            o = r["out"]
            out["passes"][o["passes"]] = out["passes"].get(o["passes"], 0) + 1
            blob = common.unhex(o["file"])
            out["bytes"] += len(blob)
            w = asmsrc.decode_walk(dirs, blob) if not errs else None
            if w:
                for mnem, label, start, end, operand, nb in w["refs"]:
                    sd = operand - (1 << 32) if operand & 0x80000000 else operand
                    k = "%s/%dB/%s" % ("rel" if mnem in asmsrc.RELATIVE else "abs", nb, "back" if sd < 0 else "fwd")
                    out["refs"][k] = out["refs"].get(k, 0) + 1
                if w["refs"]:
                    out["distinct"].add(hash(blob))
                if out["sample"] is None and len(dirs) < 14 and w["refs"]:
                    out["sample"] = {"source": asmsrc.render(dirs), "file_hex": o["file"], "family": meta["family"]}
        elif status == "rejected":
            out["rejected"] += 1
            m = errs[0][1]
            import re as _re
            m = _re.sub(r"label \S+", "label <name>", m)[:80]
            out["rejmsg"][m] = out["rejmsg"].get(m, 0) + 1
            continue
        for code, text in errs:
            if code == "rejected":
                continue
            out["viol"].append((code, {"why": text, "family": meta["family"], "meta": meta,
                                       "source": asmsrc.render(dirs) if len(dirs) < 400 else "(regenerate from subseed)"}))
            break   # one violation per program
    out["distinct"] = len(out["distinct"])
    return out


def shipped(v, exe):
    files = sorted(glob.glob(os.path.join(common.REPO, "tests", "asm", "*.S")))
    cases, progs = [], []
    for f in files:
        text = open(f).read()
        try:
            dirs = asmsrc.parse(text)
        except (ValueError, IndexError) as e:
            raise common.HarnessError("cannot parse shipped %s: %s" % (f, e))
        progs.append((os.path.basename(f), dirs))
        cases.append((len(cases), {"src": text}))
    res = common.run_harness(exe, cases, args=["cases"], tag="c05s")
    for i, (name, dirs) in enumerate(progs):
        status, errs = check_one(dirs, res[str(i)])
        v.count("shipped_files")
        for code, text in errs:
            v.violation(code, {"why": text, "file": name})


def run(tier, replay=None):
    v = Verdict("C05", tier)
    exe = build()
    if replay:
        case = json.load(open(replay))["case"]
        if "meta" in case:
            r = random.Random(case["meta"]["subseed"])
            dirs, meta = asmgen.generate(r, big=case.get("big", False))
        else:
            dirs = asmsrc.parse(open(os.path.join(common.REPO, "tests", "asm", case["file"])).read())
        res = common.run_harness(exe, [(0, {"src": asmsrc.render(dirs)})], args=["cases"])
        status, errs = check_one(dirs, res["0"])
        print(status, errs)
        return 1 if any(c != "rejected" for c, _ in errs) else 0
    total = 40000 if tier == "quick" else 1500000
    big = tier != "quick"
    W = common.NCPU * (1 if tier == "quick" else 8)
    per = total // W + 1
    jobs = [(common.seed() * 100003 + w, per, big, exe) for w in range(W)]
    outs = common.pmap(worker, jobs)
    shipped(v, exe)
    acc = rej = 0
    for o in outs:
        v.cov["evaluations"] += o["n"]
        acc += o["accepted"]
        rej += o["rejected"]
        v.cov["distinct_nontrivial"] += o["distinct"]
        for k, n in o["fam"].items():
            v.hist("programs_by_family", k, n)
        for k, n in o["refs"].items():
            v.hist("references_checked_by_kind_bytes_direction", k, n)
        for k, n in o["passes"].items():
            v.hist("layout_passes", k, n)
        for k, n in o["rejmsg"].items():
            v.hist("rejections", k, n)
        v.count("file_bytes_decoded", o["bytes"])
        if o["sample"]:
            v.sample(o["sample"], limit=4)
        for code, rep in o["viol"]:
            rep["big"] = big
            v.violation(code, rep)
    v.cov["accepted"] = acc
    v.cov["rejected"] = rej
    v.cov["rule"] = ("one evaluation = one generated assembly program assembled and decode-walked; non-trivial = accepted, "
                     "contains at least one label reference, distinct by hash of the emitted file (per worker)")
    v.assumptions = ["lib/asmsrc.decode_walk (ISA prefix rule + the directive list written by the generator) is the oracle",
                     "programs the assembler rejects are counted, not judged (C05 quantifies over accepted programs)"]
    if acc < 0.5 * v.cov["evaluations"]:
        v.inconclusive.append("only %d of %d programs accepted" % (acc, v.cov["evaluations"]))
    return v.finish(min_evaluations=1000)
