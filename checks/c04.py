"""C04: assembler prefix encoding reconstructs every 32-bit operand exactly.

The real Lexer -> Parser -> CodeGen -> emitProgramBin path assembles lines
`<MNEMONIC> <literal>` in batches; a decode-walk with the ISA's own prefix rule
consumes exactly one chain per line and checks opcode, delivered value, and that
nothing but word padding follows the last chain."""
import json
import os
import random

from lib import common
from lib.common import Verdict

MNEMS = ["LDAM", "LDBM", "STAM", "LDAC", "LDBC", "LDAP", "LDAI", "LDBI", "STAI", "BR", "BRZ", "BRN"]


def build():
    return common.build_cxx("h_asm", ["h_asm.cpp", "repo:hex.cpp"])


def boundary_values():
    vals = set()
    centers = [0, 1 << 31, (1 << 32) - 1]
    for k in range(1, 8):
        centers += [16 ** k, (1 << 32) - 16 ** k]
    for c in centers:
        for d in range(-4096, 4097):
            vals.add((c + d) & 0xFFFFFFFF)
    return vals


def run(tier, replay=None):
    v = Verdict("C04", tier)
    exe = build()
    rnd = random.Random(common.seed())
    d = common.scratch("c04")
    if replay:
        case = json.load(open(replay))["case"]
        vf = os.path.join(d, "vals")
        open(vf, "w").write("%d\n" % case["value"])
        res = common.run_selfgen(exe, [["c04list", case["level"], MNEMS.index(case["mnemonic"]), case["spelling"], vf, "@OUT"]])
        print(json.dumps(res[0][2], indent=1))
        return 1 if res[0][2] is None or res[0][2]["bad"] else 0
    # --- value lists ------------------------------------------------------
    bset = boundary_values()
    bfile = os.path.join(d, "boundary")
    with open(bfile, "w") as f:
        for x in sorted(bset):
            f.write("%d\n" % x)
    small = os.path.join(d, "small")
    with open(small, "w") as f:
        for x in range(0, 1 << 20):
            f.write("%d\n" % x)
        for x in range((1 << 32) - (1 << 20), 1 << 32):
            f.write("%d\n" % x)
    argsets = []
    exhaustive = False
    for m in range(12):
        for sp in ("u", "s", "m", "z", "y"):
            argsets.append(["c04list", "text", m, sp, bfile, "@OUT"])
            argsets.append(["c04list", "text", m, sp, small, "@OUT"])
        argsets.append(["c04list", "dir", m, "s", bfile, "@OUT"])
        argsets.append(["c04list", "dir", m, "s", small, "@OUT"])
    if tier == "quick":
        # pseudo-random strided sweeps of the whole 32-bit space: ~2e7 values in all
        for m in range(12):
            for sp in ("u", "s", "m", "z", "y"):
                stride = 4801 + 2 * rnd.randrange(200)
                argsets.append(["c04", "text", m, sp, rnd.randrange(stride), 1 << 32, stride, "@OUT"])
    else:
        exhaustive = True
        chunk = 1 << 28
        for m in range(12):
            for lo in range(0, 1 << 32, chunk):
                argsets.append(["c04", "dir", m, "s", lo, lo + chunk, 1, "@OUT"])
        for m in (3, 9):   # one mnemonic of each parser branch (LDAC: absolute forms, BR: relative forms)
            for sp in ("u", "s"):
                for lo in range(0, 1 << 32, chunk):
                    argsets.append(["c04", "text", m, sp, lo, lo + chunk, 1, "@OUT"])
        for m in range(12):
            for sp in ("u", "s", "m", "z", "y"):
                if m in (3, 9) and sp in ("u", "s"):
                    continue
                stride = 1201 + 2 * rnd.randrange(100)
                argsets.append(["c04", "text", m, sp, rnd.randrange(stride), 1 << 32, stride, "@OUT"])
    res = common.run_selfgen(exe, argsets, tag="c04", timeout=400 if tier == "quick" else 6 * 3600)
    per = {}
    chain = [0] * 10
    total = 0
    # a batch that ran into the wall-clock watchdog is run again alone with four times the budget before anything is said
    # about it: a second firing is a hang, a batch that now finishes is judged like any other
    tq = 400 if tier == "quick" else 6 * 3600
    redo = [a for a, rc, js, err in res if rc == -999]
    if redo:
        again = common.run_selfgen(exe, [list(a) for a in redo], tag="c04redo", timeout=4 * tq, maxpar=4)
        res = [r for r in res if r[1] != -999] + again
        v.count("watchdog_firings_rerun", len(redo))
    for args, rc, js, err in res:
        if rc == -999:
            v.violation("assembler-hang", {"args": [str(a) for a in args], "why": "the assembler did not finish this batch of operand values (twice; the second time alone with four times the budget)"})
            continue
        if rc != 0 or js is None:
            v.violation("harness-crash:rc=%s" % rc, {"args": [str(a) for a in args], "stderr": err})
            continue
        k = "%s/%s/%s" % (js["mnemonic"], js["level"], js["spelling"])
        per[k] = per.get(k, 0) + js["values"]
        total += js["values"]
        for i in range(10):
            chain[i] += js["chain_len"][i]
        for b in js["bad_list"]:
            key = "encode:%s:%s" % (b["literal"] if abs(int(b["literal"])) in (2147483648,) else "value", b["why"].split(" ")[0])
            v.violation(key, dict(b, level=js["level"], spelling=js["spelling"]))
        if js["bad"] > len(js["bad_list"]):
            v.violation("more-bad", {"args": [str(a) for a in args], "bad": js["bad"]})
        for s in js["samples"][:1]:
            v.sample(s, limit=8)
    v.cov["evaluations"] = total
    v.cov["distinct_nontrivial"] = total  # every (mnemonic, spelling, value) line is distinct by construction
    v.cov["rule"] = ("one evaluation = one assembled line `<MNEMONIC> <literal>` decode-walked in the emitted image; lines are "
                     "distinct (mnemonic, level, spelling, value) tuples; boundary windows +/-4096 around 0, +/-16^k, 2^31, 2^32 and "
                     "all |v| < 2^20 are complete in both tiers; spellings: u unsigned, s signed, m -n for every value, z and y the same with one to four leading zeros")
    v.cov["values_per_mnemonic_level_spelling"] = per
    v.cov["chain_length_histogram_bytes"] = {str(i): chain[i] for i in range(1, 10) if chain[i]}
    v.cov["exhaustive"] = exhaustive
    if exhaustive:
        v.cov["exhaustive_ranges"] = ["directive level: all 2^32 values x 12 mnemonics",
                                      "text level: all 2^32 values x {LDAC, BR} x {unsigned, signed} spelling; '-n' with n up to 2^32-1 for every value and the leading-zero spellings: strided"]
    v.assumptions = ["the ISA operand rule (PFIX: oreg<<4, NFIX: 0xFFFFFF00|oreg<<4, from a clear oreg) is the decoder",
                     "text-level enumeration is complete for LDAC and BR only; the other ten mnemonics share parseInteger and are sampled"]
    return v.finish(min_evaluations=1000000)
