"""C11: compilation and assembly are deterministic functions of the source.

(a) The xcmp and hexasm executables are run on the same source under host states
that differ in heap contents (MALLOC_PERTURB_, LD_PRELOAD dirtyheap shim with
several seeds), environment size and ASLR; the binary and every listing
(-S, --tree, --insts*, --instrs) must be byte-identical.
(b) In-process, the same source is compiled first, after unrelated
compilations in the same process, and through a Driver (lexer and parser for
hexasm) object that has already processed other sources; images and listings
must be identical.
(c) valgrind memcheck on accepted compilations: no conditional jump, address or
write() buffer depending on uninitialised memory (the mechanism by which host
state reaches the output, observed directly)."""
import json
import os
import random
import shutil
import subprocess

from lib import asmgen, asmsrc, common, xgen, xref, xrun
from lib.common import Verdict

UNUSUAL_X = [
    "var g; val v = g; proc main() is 0(v)",
    "val a = b; val b = 1; proc main() is 0(a)",
    "proc main() is val w = 3; var q; val z = q; { q := 1; 0(z + w) }",
    "val a = 1; val b = a + a; val c = (b - a) = 1; array z[b]; proc main() is 0(c + z[1])",
    "val k = 70000; var g; proc main() is { g := k + k; 0(g - k - k) }",
    "proc main() is { 1(\"\"[0] + 48, 0); 1(\"abc\"[0], 0) }",
    "proc unused(val a, array b, val c) is skip proc main() is skip",
    "var a; var b; var c; var d; proc main() is { a := 1; b := a; c := b; d := c; 0(d) }",
    "func lab1(val x) is return x func lab0(val x) is return lab1(x) proc main() is 0(lab0(3))",
    "val t = true; val f = false; proc main() is if t and (~f) then 0(1) else 0(2)",
    "proc show(array s) is 1(s[0] + 48, 0) proc main() is { show(\"hello, world\\n\"); show(\"\") }",
    "proc show(array s) is 1(s[0] + 48, 0) proc main() is show(\"\")",
    "proc show(array s, val c) is 1(c, 0) proc main() is { show(\"\", 'a'); show(\"b\", #7F) }",
    "proc main() is 0('x' - #78)",
    # rejected while code is being generated (after parsing and constant propagation have succeeded)
    "var x; proc main() is x := missing[2]",
    "var x; array a[x]; proc main() is skip",
    "proc main() is var q; { q := 1; while q < 3 do q := q + nothere[q] }",
    # literals beyond the range of the conversion routines (they leave errno and the like behind in the process)
    "val big = 99999999999999999999; proc main() is 0(big)",
    "proc main() is 0(#FFFFFFFFFFFFFFFFFFFFFFF - 1)",
]
UNUSUAL_ASM = [
    "unused\nLDAC 1\nalso_unused\nOPR ADD\n",
    "BR l1\nl1\nl2\nl3\nBR l3\nDATA 5\n",
    "# only a comment\n",
    "",
    "DATA 1\nDATA 2\nx\nDATA 3\nLDAM x\n",
    "LDAC 99999999999999999999\nDATA 340282366920938463463374607431768211456\n",
    "LDAC -99999999999999999999\nLDBC 18446744073709551616\n",
]
X_ACTIONS = [[], ["-S"], ["--tree"], ["--tree-opt"], ["--insts"], ["--insts-lowered"], ["--insts-optimised"]]


def build():
    xrun.build()
    common.build_cxx("h_asm", ["h_asm.cpp", "repo:hex.cpp"])
    common.build_shared("dirtyheap", "dirtyheap.c")
    return common.build_cli()


def host_states(n):
    so = common.build_shared("dirtyheap", "dirtyheap.c")
    st = [{"name": "clean", "env": {}, "wrap": []}]
    for p in (1, 165, 255):
        st.append({"name": "perturb%d" % p, "env": {"MALLOC_PERTURB_": str(p)}, "wrap": []})
    for s in (1, 2, 3, 4):
        st.append({"name": "dirtyheap%d" % s, "env": {"LD_PRELOAD": so, "DIRTYHEAP_SEED": str(s)}, "wrap": []})
    st.append({"name": "bigenv", "env": {"PADDING": "y" * 60000, "MALLOC_PERTURB_": "90"}, "wrap": []})
    st.append({"name": "noaslr", "env": {"LD_PRELOAD": so, "DIRTYHEAP_SEED": "9"}, "wrap": ["setarch", "x86_64", "-R"]})
    for i in range(4):
        st.append({"name": "aslr%d" % i, "env": {}, "wrap": []})
    return st[:n]


def exe_worker(job):
    cli, srcs, states = job
    bad = []
    nruns = 0
    nbytes = 0
    for kind, tag, text in srcs:
        d = common.scratch("c11")
        name = "p.x" if kind == "x" else "p.S"
        open(os.path.join(d, name), "wb").write(text)
        actions = X_ACTIONS if kind == "x" else [[], ["--instrs"], ["--tokens"]]
        tool = "xcmp" if kind == "x" else "hexasm"
        for act in actions:
            first = None
            for st in states:
                env = {"PATH": os.environ.get("PATH", "/usr/bin:/bin")}
                env.update(st["env"])
                outp = os.path.join(d, "o.bin")
                if os.path.exists(outp):
                    os.unlink(outp)
                try:
                    r = subprocess.run(st["wrap"] + [os.path.join(cli, tool), name] + act + ["-o", "o.bin"], cwd=d, env=env,
                                       stdout=subprocess.PIPE, stderr=subprocess.PIPE, timeout=120)
                    res = (r.returncode, r.stdout, open(outp, "rb").read() if os.path.exists(outp) else None)
                except (subprocess.TimeoutExpired, OSError) as e:
                    res = ("error:" + type(e).__name__, b"", None)
                nruns += 1
                nbytes += len(res[1]) + (len(res[2]) if res[2] else 0)
                if first is None:
                    first = (st["name"], res)
                elif res != first[1]:
                    what = "binary" if res[2] != first[1][2] else ("listing" if res[1] != first[1][1] else "status")
                    bad.append(("%s:%s-differs:%s" % (tool, what, "".join(act) or "emit"),
                                {"tag": tag, "states": [first[0], st["name"]], "status": [first[1][0], res[0]],
                                 "source": text.decode("latin-1")[:2500]}))
                    break
        shutil.rmtree(d, ignore_errors=True)
    return nruns, nbytes, bad


def memcheck_worker(job):
    cli, srcs = job
    bad = []
    n = 0
    for kind, tag, text in srcs:
        d = common.scratch("c11vg")
        name = "p.x" if kind == "x" else "p.S"
        open(os.path.join(d, name), "wb").write(text)
        tool = "xcmp" if kind == "x" else "hexasm"
        try:
            r = subprocess.run(["valgrind", "-q", "--error-exitcode=77", os.path.join(cli, tool), name, "-o", "o.bin"], cwd=d,
                               stdout=subprocess.PIPE, stderr=subprocess.PIPE, timeout=900)
            n += 1
            if r.returncode == 77 or b"ninitialised" in r.stderr or b"Invalid read" in r.stderr or b"Invalid write" in r.stderr:
                first = [l for l in r.stderr.decode("latin-1").splitlines() if "==" in l][:8]
                bad.append(("%s:memcheck" % tool, {"tag": tag, "report": first, "source": text.decode("latin-1")[:2500]}))
        except subprocess.TimeoutExpired:
            pass
        shutil.rmtree(d, ignore_errors=True)
    return n, bad


def sources(tier, rnd):
    n = 400 if tier == "quick" else 8000
    out = []
    for i in range(int(n * 0.55)):
        prog, console, files = xgen.random_program(random.Random(rnd.randrange(1 << 62)), size=0.5 if rnd.random() < 0.5 else 1.0)
        out.append(("x", "xgen%d" % i, xref.render_program(prog).encode("latin-1")))
    for i, s in enumerate(UNUSUAL_X):
        out.append(("x", "unusual%d" % i, s.encode()))
    for i in range(int(n * 0.4)):
        dirs, meta = asmgen.generate(random.Random(rnd.randrange(1 << 62)))
        if len(dirs) < 500:
            out.append(("asm", "agen%d" % i, asmsrc.render(dirs).encode()))
    for i, s in enumerate(UNUSUAL_ASM):
        out.append(("asm", "aunusual%d" % i, s.encode()))
    import glob
    for f in sorted(glob.glob(os.path.join(common.REPO, "tests", "x", "*.x"))):
        out.append(("x", os.path.basename(f), open(f, "rb").read()))
    for f in sorted(glob.glob(os.path.join(common.REPO, "tests", "asm", "*.S"))):
        out.append(("asm", os.path.basename(f), open(f, "rb").read()))
    return out


def inproc(v, srcs, rnd):
    hx = xrun.build()
    hasm = common.build_cxx("h_asm", ["h_asm.cpp", "repo:hex.cpp"])
    for kind, exe in (("x", hx), ("asm", hasm)):
        mine = [s for s in srcs if s[0] == kind]
        odd = [s for s in mine if s[1].startswith(("unusual", "aunusual"))] or mine

        def pick_pre():
            # the hand-written unusual sources (rejected at different stages, out-of-range literals, ...) are the likelier
            # ones to leave something behind in the process: they get a third of the draws
            return (rnd.choice(odd) if rnd.random() < 0.33 else rnd.choice(mine))[2]
        cases = []
        for i, (_, tag, text) in enumerate(mine):
            base = {"src": text}
            if kind == "x":
                base["want"] = "noexec,listing"
            cases.append(("%d_0" % i, dict(base)))
            f2 = dict(base)
            for k in range(2):
                f2["pre%d" % k] = pick_pre()
            if i % 2:
                f2["lfirst"] = b"1"
            cases.append(("%d_2" % i, f2))
            # the same, through one Driver (xcmp) or one lexer and parser (hexasm) that has already processed other sources
            r2 = dict(f2)
            r2["reuse"] = b"1"
            r2["pre0"] = pick_pre()
            cases.append(("%d_r2" % i, r2))
            r6 = dict(base)
            r6["reuse"] = b"1"
            for k in range(6):
                r6["pre%d" % k] = pick_pre()
            if i % 2 == 0:
                r6["lfirst"] = b"1"
            cases.append(("%d_r6" % i, r6))
            if i % 8 == 0:
                r9 = dict(base)
                r9["reuse"] = b"1"
                for k in range(9):
                    r9["pre%d" % k] = pick_pre()
                cases.append(("%d_r9" % i, r9))
            if i % 8 == 0:
                f50 = dict(base)
                for k in range(49):
                    f50["pre%d" % k] = pick_pre()
                cases.append(("%d_49" % i, f50))
        res = common.run_harness(exe, cases, args=["cases"], tag="c11in", timeout=4 * 3600)
        for i, (_, tag, text) in enumerate(mine):
            outs = []
            for suffix in ("0", "2", "49", "r2", "r6", "r9"):
                r = res.get("%d_%s" % (i, suffix))
                if r is None:
                    continue
                if r["status"] != "ok" or not r["out"]:
                    outs.append((suffix, ("abnormal", r["status"])))
                else:
                    o = r["out"]
                    outs.append((suffix, (o.get("ok"), o.get("file"), o.get("listing"), o.get("err"))))
            v.cov["evaluations"] += max(0, len(outs) - 1)
            v.count("in_process_comparisons", max(0, len(outs) - 1))
            for sfx, o in outs[1:]:
                if o != outs[0][1]:
                    v.violation("%s:inprocess-history-dependent" % ("xcmp" if kind == "x" else "hexasm"),
                                {"tag": tag, "after_compilations": sfx, "source": text.decode("latin-1")[:2500]})
                    break


def run(tier, replay=None):
    v = Verdict("C11", tier)
    cli = build()
    rnd = random.Random(common.seed() * 23 + 11)
    if replay:
        print(open(replay).read()[:3000])
        return 2
    srcs = sources(tier, rnd)
    W = common.NCPU
    states = host_states(12 if tier == "quick" else 16)
    outs = common.pmap(exe_worker, [(cli, srcs[i::W * 4], states) for i in range(W * 4)])
    for n, nbytes, bad in outs:
        v.cov["evaluations"] += n
        v.count("executable_runs", n)
        v.count("output_bytes_compared", nbytes)
        for code, rep in bad:
            v.violation(code, rep)
    v.cov["host_states"] = [s["name"] for s in states]
    inproc(v, srcs, rnd)
    nvg = 150 if tier == "quick" else 3000
    vsel = [s for s in srcs if s[1].startswith(("unusual", "aunusual"))] + srcs[:nvg]
    outs = common.pmap(memcheck_worker, [(cli, vsel[i::W]) for i in range(W)])
    for n, bad in outs:
        v.cov["evaluations"] += n
        v.count("memcheck_runs", n)
        for code, rep in bad:
            v.violation(code, rep)
    v.cov["distinct_nontrivial"] = len(srcs)
    v.cov["sources"] = len(srcs)
    v.cov["rule"] = ("one evaluation = one compilation/assembly (executable under a host state, in-process after other compilations, or "
                     "under memcheck) compared byte-for-byte with the first; distinct_nontrivial = distinct sources")
    v.sample({"source": UNUSUAL_X[0], "actions": [" ".join(a) or "(emit binary)" for a in X_ACTIONS], "host_states": [s["name"] for s in states]})
    v.assumptions = ["host states are a sample; memcheck narrows the gap by reporting the dependency on uninitialised memory itself"]
    return v.finish(min_evaluations=500)
