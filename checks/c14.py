"""C14: tool exit status and output files reflect what happened.

The real executables (built from the tree by CMake, guard off) are run in fresh
scratch directories; exit status, stderr and a before/after snapshot of the
directory are observed.  Whether a source is acceptable is taken from the
in-process library call on the same bytes, which also supplies the expected
image."""
import json
import os
import random
import shutil
import subprocess

from lib import asmgen, asmsrc, common, xgen, xref, xrun
from lib.common import Verdict

ARGFORMS = ["-o F S", "S -o F", "--output F S", "S --output F", "default"]
# options that add a report but are not "... only" display modes: the binary is still to be written
XCMP_EXTRA_FORMS = ["--memory-info S -o F", "S --output F --memory-info", "S --memory-info"]
OUTNAMES = ["out.bin", "sub dir/o ut.bin", "x", "deep/er/path.img"]
SENTINEL = b"SENTINEL-DO-NOT-TOUCH\n"

BAD_ASM = ["LDAM l\nl\nOPR ADD\n", "OPR ADD\nl\nOPR ADD\nSTAM l\n", "OPR ADD\nOPR ADD\nOPR ADD\nl\nLDAC 1\nLDBM l\nDATA 5\n",
           "BR s\nDATA 7\ns\nLDAC 1\nm\nLDAC m\n", "x\nDATA 1\nLDAC 0\ny\nLDBC y\nLDAM x\n", "LDAC", "BR nowhere\n", "LDAC -\n", "OPR LDAC\n", "FOO 1 2\nLDAC 3 4\n", "DATA\n", "LDAC 1\nBRZ missing\nlab\n",
           "LDAM lab\nLDAC 0\nlab\nLDAC 1\n", "%%%\n", "LDAC 99999999999999999999 X Y Z ( )\n", "LDAM x\nOPR ADD\nOPR ADD\nx\nDATA 1\nLDAC y\n"]
BAD_X = ["proc main() is", "proc main() is x := 1", "val a = ; proc main() is skip", "proc main() is 3(0)", "proc main() is { skip ; }",
         "proc main() is f(1)", "array a[v]; var v; proc main() is skip", "proc main() is if 1 then skip", "proc main() is 'ab'",
         "proc main() is \"unterminated", "proc main() is y[0] := 1", "var x; proc main() is x := q + 1", "func main( is skip", "@",
         # rejected after parsing, by errors that carry no source location (they come from the embedded assembler)
         "proc foo() is skip", "val v = 1; proc main() is v := 2", "var f; proc main() is f()", "var f; proc main() is 0(f(1))",
         "proc p() is skip proc main() is p := 1", "proc p() is skip proc main() is 0(p)", "array a[3]; proc main() is a()",
         "var main; proc p() is skip", "val v = 1; proc main() is v[0] := 1", "proc main() is { main := 0 }",
         "func f(val x) is return x + 1 proc helper() is 0(f(1))"]


def build():
    common.build_cxx("h_asm", ["h_asm.cpp", "repo:hex.cpp"])
    xrun.build()
    return common.build_cli()


def snapshot(d):
    out = {}
    for root, dirs, files in os.walk(d):
        for f in files:
            p = os.path.join(root, f)
            out[os.path.relpath(p, d)] = open(p, "rb").read()
    return out


def invoke(cli, tool, srcname, src, form, outname, prefill, stdin=b""):
    """-> dict(rc, stdout, stderr, new, changed, outpath_rel)"""
    d = common.scratch("c14")
    open(os.path.join(d, srcname), "wb").write(src)
    outrel = "a.out" if (form == "default" or " F" not in " " + form) else outname
    if os.path.dirname(outrel):
        os.makedirs(os.path.join(d, os.path.dirname(outrel)), exist_ok=True)
    if prefill:
        open(os.path.join(d, outrel), "wb").write(SENTINEL)
    before = snapshot(d)
    args = []
    for tok in form.split():
        if tok == "S":
            args.append(srcname)
        elif tok == "F":
            args.append(outrel)
        elif tok != "default":
            args.append(tok)
    if form == "default":
        args = [srcname]
    elif "F" not in form.split():
        args = [srcname if t == "S" else t for t in form.split()]
    try:
        r = subprocess.run([os.path.join(cli, tool)] + args, cwd=d, input=stdin, stdout=subprocess.PIPE, stderr=subprocess.PIPE, timeout=120)
        rc, so, se = r.returncode, r.stdout, r.stderr
    except subprocess.TimeoutExpired:
        rc, so, se = "timeout", b"", b""
    after = snapshot(d)
    new = {k: v for k, v in after.items() if k not in before}
    changed = {k: v for k, v in after.items() if k in before and before[k] != v}
    shutil.rmtree(d, ignore_errors=True)
    return {"rc": rc, "stdout": so, "stderr": se, "new": new, "changed": changed, "out": outrel, "args": args}


def judge_compile(tool, accepted, image, res, prefill):
    errs = []
    out = res["out"]
    if accepted:
        if res["rc"] != 0:
            errs.append(("accepted-nonzero-status", "status %s, stderr %r" % (res["rc"], res["stderr"][:120])))
        got = res["new"].get(out) if not prefill else res["changed"].get(out)
        if got is None:
            others = sorted(set(res["new"]) | set(res["changed"]))
            errs.append(("output-file-missing", "nothing written to %r; files written: %r" % (out, others)))
        elif got != image:
            errs.append(("output-file-differs", "%r holds %d bytes, in-process image %d bytes" % (out, len(got), len(image))))
        extra = sorted(k for k in list(res["new"]) + list(res["changed"]) if k != out)
        if extra:
            errs.append(("unexpected-files", "also wrote %r" % extra))
    else:
        if res["rc"] == 0:
            errs.append(("rejected-zero-status", "exit status 0 although the source is rejected (stderr %r)" % res["stderr"][:120]))
        if not res["stderr"].strip():
            errs.append(("rejected-no-diagnostic", "nothing on stderr"))
        if res["new"] or res["changed"]:
            errs.append(("rejected-wrote-files", "new %r changed %r" % (sorted(res["new"]), sorted(res["changed"]))))
    return errs


def worker(job):
    cli, items = job
    out = {"n": 0, "viol": [], "hist": {}, "files_created": 0, "sample": None}
    for it in items:
        kind = it["kind"]
        out["n"] += 1
        if kind in ("hexasm", "xcmp"):
            res = invoke(cli, kind, it["srcname"], it["src"], it["form"], it["outname"], it["prefill"])
            errs = judge_compile(kind, it["accepted"], it.get("image"), res, it["prefill"])
            h = "%s/%s/%s" % (kind, "accepted" if it["accepted"] else "rejected", it["form"].replace(" ", "_"))
            out["hist"][h] = out["hist"].get(h, 0) + 1
            if not it["accepted"]:
                h = "%s/rejected/%s" % (kind, "error-with-source-location" if it.get("located") else "error-without-source-location")
                out["hist"][h] = out["hist"].get(h, 0) + 1
            out["files_created"] += len(res["new"])
            if out["sample"] is None and it["accepted"]:
                out["sample"] = {"tool": kind, "args": res["args"], "status": res["rc"], "new_files": sorted(res["new"])}
            for code, text in errs[:1]:
                out["viol"].append(("%s:%s" % (kind, code), {"tool": kind, "args": res["args"], "why": text, "prefilled": it["prefill"],
                                                              "source": it["src"].decode("latin-1")[:3000]}))
        elif kind == "maxcycles":
            d = common.scratch("c14mc")
            open(os.path.join(d, "p.x"), "wb").write(it["src"])
            c = subprocess.run([os.path.join(cli, "xcmp"), "p.x", "-o", "t.bin"], cwd=d, stdout=subprocess.PIPE, stderr=subprocess.PIPE, timeout=120)
            if c.returncode == 0:
                for lim in (it["k"] - 1, it["k"], it["k"] + 7, 0):
                    for tool, args in (("hexsim", ["t.bin", "--max-cycles", str(lim)]), ("hexsim", ["--max-cycles", str(lim), "t.bin"]),
                                       ("xrun", ["p.x", "--max-cycles", str(lim)])):
                        if lim <= 0 and "--max-cycles" in args and lim < 0:
                            continue
                        try:
                            r1 = subprocess.run([os.path.join(cli, tool)] + args, cwd=d, input=it["stdin"], stdout=subprocess.PIPE, stderr=subprocess.PIPE, timeout=120)
                        except subprocess.TimeoutExpired:
                            continue
                        out["n"] += 1
                        h = "%s/max-cycles=%s" % (tool, "K-1" if lim == it["k"] - 1 else ("K" if lim == it["k"] else ("K+7" if lim else "0")))
                        out["hist"][h] = out["hist"].get(h, 0) + 1
                        if r1.returncode != (it["exit"] & 0xFF) or r1.stdout != it["stdout"]:
                            out["viol"].append(("%s:status-under-cycle-limit" % tool,
                                                {"why": "%s %s: status %s stdout %r; the program exits with %d after %d instructions and prints %r"
                                                        % (tool, " ".join(args), r1.returncode, r1.stdout[:40], it["exit"], it["k"], it["stdout"][:40]),
                                                 "source": it["src"].decode("latin-1")[:3000]}))
                            break
            shutil.rmtree(d, ignore_errors=True)
        elif kind == "xrun-seq":
            # two xrun invocations in the same directory: the second must not depend on what the first left behind
            d = common.scratch("c14q")
            open(os.path.join(d, "first.x"), "wb").write(it["first"])
            open(os.path.join(d, "p.x"), "wb").write(it["src"])
            try:
                subprocess.run([os.path.join(cli, "xrun"), "first.x"], cwd=d, input=b"", stdout=subprocess.PIPE, stderr=subprocess.PIPE, timeout=120)
                r2 = subprocess.run([os.path.join(cli, "xrun"), "p.x"], cwd=d, input=it["stdin"], stdout=subprocess.PIPE, stderr=subprocess.PIPE, timeout=120)
                alone = invoke(cli, "xrun", "p.x", it["src"], "default", "", False, stdin=it["stdin"])
            except subprocess.TimeoutExpired:
                shutil.rmtree(d, ignore_errors=True)
                continue
            shutil.rmtree(d, ignore_errors=True)
            h = "xrun-after-xrun/%s" % ("accepted" if it["accepted"] else "rejected")
            out["hist"][h] = out["hist"].get(h, 0) + 1
            if it["accepted"]:
                if (r2.stdout, r2.returncode) != (alone["stdout"], alone["rc"]):
                    out["viol"].append(("xrun:depends-on-earlier-run", {"why": "after another xrun: %r status %s; in a fresh directory: %r status %s"
                                                                        % (r2.stdout[:60], r2.returncode, alone["stdout"][:60], alone["rc"]),
                                                                        "first": it["first"].decode("latin-1"), "source": it["src"].decode("latin-1")[:3000]}))
            elif r2.returncode == 0 or not r2.stderr.strip() or r2.stdout:
                out["viol"].append(("xrun:rejected-source-ran-something", {"why": "status %s stdout %r stderr %r for a rejected source run after another xrun"
                                                                           % (r2.returncode, r2.stdout[:60], r2.stderr[:100]),
                                                                           "first": it["first"].decode("latin-1"), "source": it["src"].decode("latin-1")[:3000]}))
        elif kind == "xrun":
            # xrun f.x  ==  xcmp f.x -o t ; hexsim t   (same stdin)
            r1 = invoke(cli, "xrun", "p.x", it["src"], "default", "", False, stdin=it["stdin"])
            d = common.scratch("c14x")
            open(os.path.join(d, "p.x"), "wb").write(it["src"])
            c = subprocess.run([os.path.join(cli, "xcmp"), "p.x", "-o", "t.bin"], cwd=d, stdout=subprocess.PIPE, stderr=subprocess.PIPE, timeout=120)
            if c.returncode == 0 and os.path.exists(os.path.join(d, "t.bin")):
                s = subprocess.run([os.path.join(cli, "hexsim"), "t.bin", "--max-cycles", "3000000"], cwd=d, input=it["stdin"], stdout=subprocess.PIPE, stderr=subprocess.PIPE, timeout=120)
                want = (s.stdout, s.returncode)
            else:
                want = (None, "compile-error")
            shutil.rmtree(d, ignore_errors=True)
            h = "xrun/%s" % ("accepted" if it["accepted"] else "rejected")
            out["hist"][h] = out["hist"].get(h, 0) + 1
            if want[1] == "compile-error":
                if r1["rc"] == 0 or not r1["stderr"].strip():
                    out["viol"].append(("xrun:rejected-zero-status", {"why": "status %s stderr %r" % (r1["rc"], r1["stderr"][:100]), "source": it["src"].decode("latin-1")[:3000]}))
            else:
                if (r1["stdout"], r1["rc"]) != want:
                    what = "status" if r1["stdout"] == want[0] else "stdout"
                    out["viol"].append(("xrun:%s-differs-from-xcmp+hexsim" % what,
                                        {"why": "xrun: %r status %s; xcmp+hexsim: %r status %s" % (r1["stdout"][:60], r1["rc"], want[0][:60], want[1]),
                                         "source": it["src"].decode("latin-1")[:3000], "stdin_hex": it["stdin"].hex()}))
                if it.get("exit") is not None and want[1] != (it["exit"] & 0xFF):
                    out["viol"].append(("hexsim:status-not-exit-value", {"why": "hexsim status %s, program exit value %d" % (want[1], it["exit"]),
                                                                          "source": it["src"].decode("latin-1")[:3000]}))
                if it.get("exit") is not None:
                    hh = "exit_value_%s" % (it["exit"] if -2 < it["exit"] < 300 else "other")
                    out["hist"][hh] = out["hist"].get(hh, 0) + 1
    return out


def make_items(tier, rnd):
    hasm = common.build_cxx("h_asm", ["h_asm.cpp", "repo:hex.cpp"])
    hx = xrun.build()
    n = 1200 if tier == "quick" else 20000
    items = []
    # ---- assembly sources
    asm_srcs = []
    for i in range(n // 5):
        dirs, meta = asmgen.generate(random.Random(rnd.randrange(1 << 62)))
        if len(dirs) < 300:
            asm_srcs.append(asmsrc.render(dirs).encode())
    for b in BAD_ASM:
        asm_srcs.append(b.encode())
    for b in ("", "# only a comment\n", "\n\n   \n", "lab\n", "# c\nlab\n# d\n"):      # accepted, but produce an (almost) empty image
        asm_srcs.append(b.encode())
    for i in range(n // 20):
        # token-level damage of a valid program
        dirs, meta = asmgen.generate(random.Random(rnd.randrange(1 << 62)))
        toks = asmsrc.render(dirs).split()
        if toks:
            k = rnd.randrange(len(toks))
            toks[k] = rnd.choice(["", "-", "OPR", "zzz_undefined", "99x", "DATA", "("])
            asm_srcs.append(" ".join(toks).encode() + b"\n")
    res = common.run_harness(hasm, [(i, {"src": s}) for i, s in enumerate(asm_srcs)], args=["cases"], tag="c14a")
    for i, s in enumerate(asm_srcs):
        r = res[str(i)]
        if r["status"] != "ok" or not r["out"]:
            continue       # crashes are C10's business
        o = r["out"]
        if not o["ok"] and o["errtype"] not in ("Error", "std::exception"):
            continue
        items.append({"kind": "hexasm", "srcname": rnd.choice(["p.S", "prog.asm", "my prog.S"]), "src": s, "accepted": o["ok"], "located": o.get("located"),
                      "image": common.unhex(o["file"]) if o["ok"] else None, "form": rnd.choice(ARGFORMS), "outname": rnd.choice(OUTNAMES),
                      "prefill": rnd.random() < 0.5})
    # ---- X sources
    x_srcs = []
    for i in range(n // 5):
        prog, console, files = xgen.random_program(random.Random(rnd.randrange(1 << 62)), size=0.5)
        x_srcs.append((xref.render_program(prog).encode("latin-1"), prog, console))
    for b in BAD_X:
        x_srcs.append((b.encode(), None, b""))
    for i in range(n // 20):
        prog, console, files = xgen.random_program(random.Random(rnd.randrange(1 << 62)), size=0.5)
        toks = xref.render_program(prog).split()
        k = rnd.randrange(len(toks))
        toks[k] = rnd.choice(["", "}", "undefined_name", ":=", "proc", "(", "'"])
        x_srcs.append((" ".join(toks).encode("latin-1"), None, b""))
    res = common.run_harness(hx, [(i, {"src": s, "want": "noexec"}) for i, (s, _, _) in enumerate(x_srcs)], args=["cases"], tag="c14x")
    for i, (s, prog, console) in enumerate(x_srcs):
        r = res[str(i)]
        if r["status"] != "ok" or not r["out"]:
            continue
        o = r["out"]
        if not o["ok"] and o["errtype"] not in ("Error", "std::exception"):
            continue
        items.append({"kind": "xcmp", "srcname": rnd.choice(["p.x", "a b.x"]), "src": s, "accepted": o["ok"], "located": o.get("located"),
                      "image": common.unhex(o["file"]) if o["ok"] else None, "form": rnd.choice(ARGFORMS + XCMP_EXTRA_FORMS), "outname": rnd.choice(OUTNAMES),
                      "prefill": rnd.random() < 0.5})
        if rnd.random() < 0.5:
            ex = None
            if prog is not None:
                ref = xref.Interp(prog, console, {}).run()
                if ref["status"] == "defined":
                    ex = ref["exit"]
            # run only programs the reference deems well-defined (an ill-defined one may drive the simulator outside its
            # memory, where it has no defined behaviour) and sources that are rejected (nothing runs)
            if ex is not None or not o["ok"]:
                items.append({"kind": "xrun", "src": s, "stdin": console, "accepted": o["ok"], "exit": ex})
                if rnd.random() < 0.5 or not o["ok"]:
                    items.append({"kind": "xrun-seq", "src": s, "stdin": console, "accepted": o["ok"],
                                  "first": rnd.choice([b"proc main() is { 1('o', 0); 1('k', 0); 0(0) }", b"proc main() is 0(3)"])})
    # the cycle limit must not change the status of a program that does exit within it (limit = K-1 is the last one that lets
    # the exit call execute, K the instruction count including the exit call)
    probe = []
    for i in range(40 if tier == "quick" else 600):
        prog, console, files = xgen.random_program(random.Random(rnd.randrange(1 << 62)), size=0.5)
        if files:
            continue
        ref = xref.Interp(prog, console, {}).run()
        if ref["status"] == "defined":
            probe.append((xref.render_program(prog).encode("latin-1"), console, ref["exit"]))
    for val in (3, 255, 256, -1):
        lit = "%d" % val if val >= 0 else "(0 - %d)" % -val
        probe.append((("proc main() is 0(%s)" % lit).encode(), b"", val))
    pres = common.run_harness(hx, [(i, {"src": s, "input": c}) for i, (s, c, e) in enumerate(probe)], args=["cases"], tag="c14k")
    for i, (s, c, e) in enumerate(probe):
        r = pres[str(i)]
        if r["status"] == "ok" and r["out"] and r["out"].get("ok") and r["out"]["ended"] == "exit":
            items.append({"kind": "maxcycles", "src": s, "stdin": c, "exit": e, "k": r["out"]["cycles"], "stdout": common.unhex(r["out"]["console"])})
    # exit values 0, 1, 7, 255, 256, -1 through hexsim/xrun
    for val in (0, 1, 7, 255, 256, 257, -1, -256, 65535):
        lit = "%d" % val if val >= 0 else "-%d" % -val
        items.append({"kind": "xrun", "src": ("proc main() is 0(%s)" % lit).encode(), "stdin": b"", "accepted": True, "exit": val})
    # input bytes >= 0x80 and end of input, used in comparisons (not only modulo 256): xrun must see what hexsim sees
    for src in ("val get = 2; proc main() is var c; { c := get(0); if c < 128 then 0(1) else 0(2) }",
                "val get = 2; proc main() is var c; { c := get(0); if c = 255 then 0(7) else 0(8) }",
                "val put = 1; val get = 2; proc main() is var c; var n; { n := 0; c := get(0); while (n < 5) and (c > 0) do { put('0' + n, 0); c := get(0); n := n + 1 }; 0(n) }",
                "val get = 2; var x; proc main() is { x := get(0) + get(0); if x > 300 then 0(3) else 0(4) }"):
        for inp in (b"\xe9", b"\x80\x80", b"\xff", b"", b"A", b"\x7f\x81zz"):
            items.append({"kind": "xrun", "src": src.encode(), "stdin": inp, "accepted": True, "exit": None})
            items.append({"kind": "xrun-seq", "src": src.encode(), "stdin": inp, "accepted": True, "first": b"proc main() is 0(3)"})
    rnd.shuffle(items)
    return items


def run(tier, replay=None):
    v = Verdict("C14", tier)
    cli = build()
    rnd = random.Random(common.seed() * 17 + 14)
    if replay:
        case = json.load(open(replay))["case"]
        print(json.dumps(case, indent=1)[:3000])
        print("re-run: the case records tool, args and source")
        return 2
    items = make_items(tier, rnd)
    W = common.NCPU
    outs = common.pmap(worker, [(cli, items[i::W]) for i in range(W)])
    for o in outs:
        v.cov["evaluations"] += o["n"]
        for k, n in o["hist"].items():
            v.hist("invocations_by_tool_class_argform", k, n)
        v.count("files_observed_created", o["files_created"])
        if o["sample"]:
            v.sample(o["sample"], limit=4)
        for code, rep in o["viol"]:
            v.violation(code, rep)
    v.cov["distinct_nontrivial"] = len({(it["kind"], it["src"], it.get("form"), it.get("prefill"), it.get("first")) for it in items})
    v.cov["rule"] = ("one evaluation = one invocation of a shipped executable in a fresh directory; distinct by (tool, source, argument "
                     "form, whether the output path pre-existed)")
    v.assumptions = ["acceptance ground truth and the expected image come from the in-process library call on the same bytes",
                     "I/O faults (unwritable output, full disk) are outside the quantifier"]
    return v.finish(min_evaluations=300)
