"""C16: processor.v (both shipped copies) is behaviourally identical to processor.sv.

Three Verilated models (processor.sv, verilog/processor.v, synth/processor.v under
the same hex.sv/memory.sv) are stepped in lock-step from identical memories and
identical planted or reset states; outputs before every clock edge and registers
and written memory after it are compared.  No ISA model is involved: all 256
instruction bytes and arbitrary states are compared."""
import glob
import json
import os
import random

from lib import asmprog, common, rtl, xgen, xref, xrun
from lib.common import Verdict

OPC = ["LDAM", "LDBM", "STAM", "LDAC", "LDBC", "LDAP", "LDAI", "LDBI", "STAI", "BR", "BRZ", "BRN", "0xC", "OPR", "PFIX", "NFIX"]


def build():
    xrun.build()
    common.build_cxx("h_asm", ["h_asm.cpp", "repo:hex.cpp"])
    return rtl.build_h_rtl()


def images(n, seed, d):
    """Binaries from the toolchain: generated X programs and the shipped ones."""
    exe = xrun.build()
    rnd = random.Random(seed)
    cases = []
    for i in range(n):
        prog, console, files = xgen.random_program(random.Random(rnd.randrange(1 << 62)))
        cases.append((i, {"src": xref.render_program(prog), "want": "noexec"}))
    for f in sorted(glob.glob(os.path.join(common.REPO, "tests", "x", "*.x"))):
        cases.append((len(cases), {"src": open(f).read(), "want": "noexec"}))
    res = common.run_harness(exe, cases, args=["cases"], tag="img")
    paths = []
    for i, _ in cases:
        r = res[str(i)]
        if r["status"] == "ok" and r["out"] and r["out"].get("ok"):
            p = os.path.join(d, "img%d.bin" % i)
            open(p, "wb").write(common.unhex(r["out"]["file"]))
            paths.append(p)
    # hand-written-style assembly images as well
    hasm = common.build_cxx("h_asm", ["h_asm.cpp", "repo:hex.cpp"])
    acases = [(i, {"src": asmprog.program(random.Random(rnd.randrange(1 << 62)))[0]}) for i in range(max(8, n // 2))]
    ares = common.run_harness(hasm, acases, args=["cases"], tag="imga")
    for i, _ in acases:
        r = ares[str(i)]
        if r["status"] == "ok" and r["out"] and r["out"].get("ok"):
            p = os.path.join(d, "asm%d.bin" % i)
            open(p, "wb").write(common.unhex(r["out"]["file"]))
            paths.append(p)
    return paths


def text_identity(v):
    """The two shipped copies are meant to be the same design: report whether the texts differ (informational)."""
    a = open(os.path.join(common.REPO, "verilog", "processor.v")).read().splitlines()
    b = open(os.path.join(common.REPO, "synth", "processor.v")).read().splitlines()
    strip = lambda ls: [l for l in ls if not l.strip().startswith("//")]   # noqa: E731
    v.cov["shipped_copies_textually_equal_modulo_comments"] = strip(a) == strip(b)


def run(tier, replay=None):
    v = Verdict("C16", tier)
    exe = build()
    seed = common.seed()
    d = common.scratch("c16")
    if replay:
        case = json.load(open(replay))["case"]
        res = common.run_selfgen(exe, [case["args"]])
        print(json.dumps(res[0][2]["mismatch_list"] if res[0][2] else None, indent=1)[:3000])
        return 1 if res[0][2] is None or res[0][2]["mismatches"] else 0
    W = common.NCPU
    ngrid, nseq, nimg = (6000, 4000, 48) if tier == "quick" else (200000, 200000, 800)
    imgs = images(nimg, seed, d)
    argsets = []
    for w in range(W):
        rr = w % 3
        mine = imgs[w::W]
        argsets.append(["c16", seed * 1000 + w, ngrid // W + 1, nseq // W + 1, rr, "@OUT"] + mine)
    res = common.run_selfgen(exe, argsets, tag="c16", timeout=900 if tier == "quick" else 4 * 3600)
    table = [[0, 0, 0] for _ in range(16)]
    seen = [0] * 256
    tot = {}
    for args, rc, js, err in res:
        if rc != 0 or js is None:
            # a simulator fault inside a compared step is caught and reported as a mismatch by the harness itself;
            # anything else that kills the process is a failure of the machinery, not a verdict on the property
            raise common.HarnessError("lock-step worker ended with status %s: %s" % (rc, err[-500:]))
        for k in ("cycles", "cases", "stores", "sysreq", "signals", "binaries", "resets_over_clock_edge", "reset_pulses_between_edges"):
            tot[k] = tot.get(k, 0) + js.get(k, 0)
        for o in range(16):
            for c in range(3):
                table[o][c] += js["opc_table"][o][c]
        for i in range(256):
            seen[i] |= js["bytes_seen"][i]
        for m in js["mismatch_list"]:
            v.violation(m["what"].replace(" ", "-"), {"args": [str(a) for a in args[:6]] , "mismatch": m})
        if js["mismatches"] > len(js["mismatch_list"]):
            v.violation("more-mismatches", {"args": [str(a) for a in args[:6]], "count": js["mismatches"]})
    v.cov["evaluations"] = tot.get("cycles", 0)
    v.cov["distinct_nontrivial"] = sum(seen)
    v.cov["rule"] = ("one evaluation = one clock cycle compared across the three models (7 outputs before the edge, 4 registers and the "
                     "written word after it); distinct_nontrivial = distinct instruction bytes under the program counter (all 256 compared)")
    v.cov["signals_compared"] = tot.get("signals", 0)
    v.cov["stores_compared"] = tot.get("stores", 0)
    v.cov["cases"] = tot.get("cases", 0)
    v.cov["toolchain_binaries_run"] = tot.get("binaries", 0)
    v.cov["mid_run_resets_held_over_a_clock_edge"] = tot.get("resets_over_clock_edge", 0)
    v.cov["mid_run_reset_pulses_between_clock_edges"] = tot.get("reset_pulses_between_edges", 0)
    v.cov["opcode_table"] = {OPC[o]: {"oreg_zero": table[o][0], "oreg_pos": table[o][1], "oreg_neg": table[o][2]} for o in range(16)}
    v.cov["rand_reset_modes"] = [0, 1, 2]
    text_identity(v)
    v.sample({"mode": "grid", "what": "256 bytes x %d planted states per worker, random/corner registers and memory read data" % (ngrid // W + 1)})
    v.sample({"mode": "seq", "what": "random byte sequences from reset over random memory, 20-320 cycles each"})
    v.sample({"mode": "binary", "what": "%d toolchain images run 3000 cycles from reset" % len(imgs)})
    v.assumptions = ["two-state simulation; X terms of the sv2v text are sampled through --x-assign/--x-initial unique and randReset 0/1/2",
                     "memories of the three models are made identical before comparing"]
    if sum(seen) < 256:
        v.inconclusive.append("only %d of 256 instruction bytes compared" % sum(seen))
    return v.finish(min_evaluations=10000)
