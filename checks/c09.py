"""C09: xcmp accepts or cleanly rejects every input.

Hostile byte strings (random bytes, printable noise, token soups, token-level
mutations and splices of valid programs, deep nesting, grammar-valid but
semantically odd programs) go through xcmp::Driver in the ASan+UBSan build
(fork per case), a sample through the real main() of xcmp (sanitizer build) and
a sample under valgrind memcheck.  Any sanitizer report, assertion, signal,
non-std exception, hang, or an outcome that is neither (binary, no diagnostic)
nor (diagnostic, nothing written) is a violation."""
import glob
import json
import os
import random

from lib import bytegen, common, fuzzcheck
from lib.common import Verdict

WHICH = "x"
PID = "C09"


def harness():
    return common.build_cxx("h_x", ["h_x.cpp", "repo:hex.cpp"], flavour="san")


def cli_san():
    return common.build_cxx("xcmp_san", ["repo:xcmp.cpp", "repo:hex.cpp"], flavour="cli-san")


def fuzz_target():
    return common.build_cxx("fz_x", ["fz_x.cpp", "repo:hex.cpp"], flavour="fuzz")


def build():
    harness()
    cli_san()
    fuzz_target()
    return common.build_cli()


def corpus(rnd):
    shipped = [open(f, encoding="latin-1").read() for f in sorted(glob.glob(os.path.join(common.REPO, "tests", "x", "*.x")))
               if os.path.getsize(f) < 5000]
    return bytegen.x_corpus(rnd, 150, shipped)


def run(tier, replay=None, which=WHICH, pid=PID, harness_fn=None, cli_fn=None, corpus_fn=None, tool="xcmp", fuzz_fn=None):
    v = Verdict(pid, tier)
    exe = (harness_fn or harness)()
    clis = (cli_fn or cli_san)()
    cli = common.build_cli()
    if replay:
        case = json.load(open(replay))["case"]
        data = bytes.fromhex(case["input_hex"])
        f = {"src": data}
        if which == "x":
            f["want"] = "noexec"
        res = common.run_harness(exe, [(0, f)], args=["cases"])
        oc, key, detail = fuzzcheck.classify(which, res["0"])
        print(oc, key, detail[-800:])
        return 1 if oc == "violation" else 0
    rnd = random.Random(common.seed() * 29 + (9 if which == "x" else 10))
    corp = (corpus_fn or corpus)(rnd)
    n = 150000 if tier == "quick" else 3000000
    if which == "asm":
        n = 200000 if tier == "quick" else 5000000
    W = common.NCPU * (2 if tier == "quick" else 16)
    jobs = [(which, common.seed() * 5000011 + w, n // W + 1, exe, corp) for w in range(W)]
    outs = common.pmap(fuzzcheck.worker, jobs)
    touts = []
    for o in outs:
        v.cov["evaluations"] += o["n"]
        v.cov["distinct_nontrivial"] += o["distinct"]
        v.count("accepted", o["accepted"])
        v.count("rejected", o["rejected"])
        v.count("rejected_with_source_position", o["located"])
        v.count("sanitizer_report_blocks", o["san_blocks"])
        for k, c in o.get("errclasses", {}).items():
            v.hist("rejections_by_error_class", k, c)
        for k, c in o["classes"].items():
            v.hist("cases_by_generator_class", k, c)
        for k, c in o["diags"].items():
            v.hist("diagnostics_seen", k, c)
        touts += o["timeouts"]
        v.count("cases_skipped_after_repeated_watchdog_firings", o.get("skipped", 0))
        for key, rep in o["viol"]:
            v.violation(key, rep)
    d = v.cov.get("diagnostics_seen", {})
    if len(d) > 60:
        top = sorted(d.items(), key=lambda kv: -kv[1])[:60]
        v.cov["diagnostics_seen"] = dict(top)
        v.cov["distinct_diagnostics"] = len(d)
    if which == "x":
        items = [("kind-matrix", bytegen.kind_matrix_program(k, u).encode("latin-1")) for k in bytegen.KINDS for u in bytegen.USES]
        items += [("odd-semantics", f.encode("latin-1")) for f in bytegen.odd_x_forms()]
        fuzzcheck.fixed_cases(v, which, exe, items)
    else:
        fuzzcheck.fixed_cases(v, which, exe, [("odd", f.encode("latin-1")) for f in bytegen.odd_asm_forms()])
    fuzzcheck.confirm_timeouts(v, which, exe, touts)
    v.count("watchdog_firings", len(touts))
    fz_seconds = int(os.environ.get("VERIF_FUZZ_SECONDS", "0" if tier == "quick" else ("1200" if which == "x" else "900")))
    if fz_seconds > 0:
        fuzzcheck.libfuzzer_stage(v, which, (fuzz_fn or fuzz_target)(), exe, corp, fz_seconds)
    fuzzcheck.cli_sample(v, which, clis, 400 if tier == "quick" else 20000, rnd, corp)
    nvg = 200 if tier == "quick" else 5000
    items = [(bytegen.x_case if which == "x" else bytegen.asm_case)(rnd, corp) for _ in range(nvg)]
    # the enumerated forms too: memcheck is the only monitor here that sees a read of an uninitialised value
    if which == "x":
        enum = [("kind-matrix", bytegen.kind_matrix_program(k, u).encode("latin-1")) for k in bytegen.KINDS for u in bytegen.USES]
        enum += [("odd-semantics", f.encode("latin-1")) for f in bytegen.odd_x_forms()]
    else:
        enum = [("odd", f.encode("latin-1")) for f in bytegen.odd_asm_forms()]
    if tier == "quick":
        enum = enum[common.seed() % 2::2]
    items += enum
    items = [(c, dta[:4096]) for c, dta in items]
    Wp = common.NCPU
    for cnt, bad in common.pmap(fuzzcheck.memcheck_worker, [(os.path.join(cli, tool), items[i::Wp]) for i in range(Wp)]):
        v.cov["evaluations"] += cnt
        v.count("memcheck_runs", cnt)
        for key, rep in bad:
            v.violation(key, rep)
    v.cov["rule"] = ("one evaluation = one input (<= 4 KiB) pushed through the tool; distinct_nontrivial = distinct byte strings "
                     "(per worker); every case is classified accepted / cleanly rejected / violation")
    v.sample({"class": "odd-semantics", "input": bytegen.odd_x(random.Random(3)) if which == "x" else bytegen.odd_asm(random.Random(3))})
    v.sample({"class": "mutated", "input": bytegen.mutate(corp[0], random.Random(5), bytegen.X_TOKENS if which == "x" else bytegen.ASM_TOKENS)[:300]})
    v.assumptions = ["inputs up to 4 KiB", "ASan/UBSan/_GLIBCXX_ASSERTIONS and memcheck are the undefined-behaviour oracles; red-zone tools miss intra-object overflows"]
    return v.finish(min_evaluations=5000)
