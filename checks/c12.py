"""C12: a simulator run depends only on the binary, the input and the options.

(a) The hexsim executable is run under host states that differ in what the
stack holds before main (LD_PRELOAD dirtystack shim, several seeds), the size of
the environment and ASLR; stdout and exit status must not change.
(b) hexsim::Processor is placement-constructed in storage pre-filled with
0x00/0xFF/0xA5/PRNG bytes and run in lock-step with the reference model whose
memory is zero outside the image: any read of an unwritten word that yields
non-zero shows as a register mismatch.  Runs cut by the cycle limit must return
the same status for every fill.  Runs with tracing on must agree with tracing
off in exit value, input position and system calls.
(c) valgrind memcheck on the executable: no use of uninitialised memory."""
import json
import os
import random
import shutil
import subprocess

from lib import common, xgen, xref, xrun
from lib.common import Verdict

RBW_X = [
    "array a[10]; proc main() is 0(a[3] + a[7])",
    "proc main() is var x; 0(x)",
    "array a[40]; proc main() is var i; var s; { s := 0; i := 0; while i < 40 do { s := s + a[i]; i := i + 1 }; 0(s) }",
    "func f(val n) is var t; return t proc main() is 0(f(1) + f(2))",
    "array big[1000]; val put = 1; proc main() is { put(big[999] + 65, 0); put(big[0] + 66, 0); 0(big[500]) }",
    "proc main() is var a; var b; var c; { if a = 0 then 0(b) else 0(c) }",
]
LONG_X = ["var g; proc main() is { g := 0; while g < 150000 do g := g + 1; 0(7) }",
          "val put = 1; val get = 2; var g; proc main() is { g := 0; while g < 120000 do g := g + 1; put('K', 256); put(get(0), 256); 0(9) }"]
# reads from file streams that are missing, empty or exhausted, and from the console past its end: the value is defined
# (end of input), so it must not depend on the host either
IO_X = ["val put = 1; val get = 2; proc main() is { put(get(256), 0); put(get(256) + 1, 0); 0(get(256)) }",
        "val put = 1; val get = 2; proc main() is { put(get(0), 0); put(get(0), 0); put(get(0) - 100, 0); 0(get(0)) }",
        "val put = 1; val get = 2; var x; proc main() is { x := get(512); put(x, 768); put(x - 190, 0); x := get(511) + get(256); 0(x) }",
        "val put = 1; val get = 2; var x; var n; proc main() is { n := 0; x := get(256); while (n < 6) and (x ~= 255) do { put(x, 0); x := get(256); n := n + 1 }; 0(x) }"]
# programs that take only part of the input they are given (what is left belongs to the next reader of the same file)
PARTIAL_X = ["val put = 1; val get = 2; proc main() is { put(get(0), 0); 0(3) }",
             "val put = 1; val get = 2; proc main() is var c; { c := get(0); while c ~= '.' do { put(c, 0); c := get(0) }; 0(7) }",
             "proc main() is 0(5)"]
IO_FILES = [{}, {1: b""}, {1: b"A"}, {1: b"hello world"}, {1: b"\xff\x80", 2: b"q"}]
LOOP_X = ["proc main() is while true do skip", "var g; proc main() is { g := 0; while g >= 0 do g := g + 1 }"]


def build():
    xrun.build()
    common.build_cxx("h_asm", ["h_asm.cpp", "repo:hex.cpp"])
    common.build_cxx("h_sim", ["h_sim.cpp", "repo:hex.cpp"])
    common.build_shared("dirtystack", "dirtystack.c")
    return common.build_cli()


# an image that stores a pattern into every word from 40 to 199999 and exits: run first in the same process, it leaves
# whatever the simulator keeps between simulations as dirty as it can be
DIRTY_ASM = ("BR start\nDATA 150000\nptr\nDATA 199999\nlim\nDATA 40\nstart\nloop\nLDBM ptr\nLDAC 1515870810\nSTAI 0\nLDAM ptr\nLDBC 1\n"
             "OPR SUB\nSTAM ptr\nLDBM lim\nOPR SUB\nBRN done\nBR loop\ndone\nLDAC 0\nLDBM 1\nSTAI 2\nLDAC 0\nOPR SVC\n")


def dirty_image():
    hasm = common.build_cxx("h_asm", ["h_asm.cpp", "repo:hex.cpp"])
    r = common.run_harness(hasm, [(0, {"src": DIRTY_ASM})], args=["cases"], tag="c12d")["0"]
    if r["status"] != "ok" or not r["out"] or not r["out"].get("ok"):
        raise common.HarnessError("the memory-dirtying image does not assemble: %r" % (r,))
    return common.unhex(r["out"]["file"])


def asm_rbw(rnd):
    k1 = rnd.choice([rnd.randrange(100, 199990), 199999, 150000, 1000])
    k2 = rnd.choice([rnd.randrange(100, 199990), 199998, 777])
    return ("BR start\nDATA 150000\nstart\nLDAM %d\nLDBM %d\nOPR ADD\nLDBM 1\nSTAI 2\nLDAC 0\nOPR SVC\n" % (k1, k2))


def images(tier, rnd):
    """-> list of (tag, file bytes, input, kind, files) kind: rbw | defined | loop; files: index -> contents of simin<index>"""
    hx = xrun.build()
    hasm = common.build_cxx("h_asm", ["h_asm.cpp", "repo:hex.cpp"])
    out = []
    xs = [("rbw%d" % i, s, b"", "rbw", {}) for i, s in enumerate(RBW_X)] + [("loop%d" % i, s, b"", "loop", {}) for i, s in enumerate(LOOP_X)]
    for i, s in enumerate(IO_X):
        for k, fl in enumerate(IO_FILES):
            xs.append(("io%d_%d" % (i, k), s, b"" if k % 2 == 0 else b"Zq", "defined", fl))
    for i, s in enumerate(PARTIAL_X):
        for k, inp in enumerate((b"abc.defghij\n", b"x.", b"q." + b"z" * 9000)):
            xs.append(("io-partial%d_%d" % (i, k), s, inp, "defined", {}))
    ngen = 300 if tier == "quick" else 8000
    for i in range(ngen):
        prog, console, files = xgen.random_program(random.Random(rnd.randrange(1 << 62)), size=0.5)
        xs.append(("gen%d" % i, xref.render_program(prog), console, "defined", dict(files)))
    res = common.run_harness(hx, [(i, {"src": s, "want": "noexec"}) for i, (_, s, _, _, _) in enumerate(xs)], args=["cases"], tag="c12x")
    for i, (tag, s, inp, kind, files) in enumerate(xs):
        r = res[str(i)]
        if r["status"] == "ok" and r["out"] and r["out"].get("ok"):
            out.append((tag, common.unhex(r["out"]["file"]), inp, kind, files))
    # image files that end early: the header announces more words than the file carries (the loader reads what is there;
    # the rest of the announced range is memory not covered by the file and reads as zero), with and without a debug section
    base = [im for im in out if im[3] != "loop"]
    for im in base[:(40 if tier == "quick" else 1500)]:
        tag, blob, inp, kind, files = im
        words = int.from_bytes(blob[:4], "little")
        if words < 3 or 4 + 4 * words > len(blob):
            continue
        cuts = {4, 4 + 4 * words, 4 + 4 * rnd.randrange(1, words), 4 + 4 * rnd.randrange(1, words) + rnd.randrange(1, 4),
                4 + 4 * (words - 1) + rnd.randrange(1, 4)}
        for cut in sorted(cuts):
            out.append(("%s:cut%d" % (tag, cut), blob[:cut], inp, "rbw", files))
    nasm = 60 if tier == "quick" else 2000
    asms = [asm_rbw(rnd) for _ in range(nasm)]
    res = common.run_harness(hasm, [(i, {"src": s}) for i, s in enumerate(asms)], args=["cases"], tag="c12a")
    for i, s in enumerate(asms):
        r = res[str(i)]
        if r["status"] == "ok" and r["out"] and r["out"].get("ok"):
            out.append(("asm%d" % i, common.unhex(r["out"]["file"]), b"", "rbw", {}))
    return out


def host_states(rnd, n):
    so = common.build_shared("dirtystack", "dirtystack.c")
    states = [{"name": "clean", "env": {}, "wrap": []}]
    for s in range(1, 5):
        states.append({"name": "dirtystack%d" % s, "env": {"LD_PRELOAD": so, "DIRTYSTACK_SEED": str(s * 7 + rnd.randrange(1000) * 4 + s % 4)}, "wrap": []})
    states.append({"name": "bigenv", "env": {"PADDING": "x" * 60000, "LD_PRELOAD": so, "DIRTYSTACK_SEED": "2"}, "wrap": []})
    states.append({"name": "smallenv-noaslr", "env": {"LD_PRELOAD": so, "DIRTYSTACK_SEED": "3"}, "wrap": ["setarch", "x86_64", "-R"]})
    states.append({"name": "perturb", "env": {"MALLOC_PERTURB_": "165", "LD_PRELOAD": so, "DIRTYSTACK_SEED": "1"}, "wrap": []})
    return states[:n]


def exe_worker(job):
    cli, imgs, states, cuts = job
    bad = []
    nruns = 0
    for tag, blob, inp, kind, files in imgs:
        d = common.scratch("c12exe")
        p = os.path.join(d, "p.bin")
        open(p, "wb").write(blob)
        for k, data in files.items():
            open(os.path.join(d, "simin%d" % k), "wb").write(data)
        opts = [["--max-cycles", "2000000"]]
        if kind == "loop":
            opts = [["--max-cycles", str(c)] for c in cuts]
        for opt in opts:
            outs = []
            for st in states:
                env = {"PATH": os.environ.get("PATH", "/usr/bin:/bin")}
                env.update(st["env"])
                # standard input is a regular file: the position the process leaves it at is part of "input consumption"
                rc, so_, se_, left_at = common.run_file_stdin(st["wrap"] + [os.path.join(cli, "hexsim")] + opt + [p], inp, cwd=d, env=env, timeout=120)
                if rc == "timeout":
                    outs.append((st["name"], b"", "error:TimeoutExpired", None))
                else:
                    so = b"".join(b"[%s]" % n.encode() + open(os.path.join(d, n), "rb").read() for n in sorted(os.listdir(d)) if n.startswith("simout"))
                    outs.append((st["name"], so_ + so, rc, left_at))
                    for n in os.listdir(d):
                        if n.startswith("simout"):
                            os.unlink(os.path.join(d, n))
                nruns += 1
            ref = outs[0]
            if kind != "loop":
                # -t only adds trace text: the exit status must not change
                rc_t, _, _, left_t = common.run_file_stdin([os.path.join(cli, "hexsim"), "-t"] + opt + [p], inp, cwd=d,
                                                           env={"PATH": os.environ.get("PATH", "/usr/bin:/bin")}, timeout=300)
                if rc_t != "timeout":
                    nruns += 1
                    if rc_t != ref[2]:
                        bad.append(("trace-changes-status", {"image": tag, "untraced": ref[2], "traced": rc_t}))
                    elif left_t != ref[3]:
                        bad.append(("trace-changes-input-consumption", {"image": tag, "input_bytes": len(inp), "untraced_left_at": ref[3], "traced_left_at": left_t}))
            for o in outs[1:]:
                if (o[1], o[2], o[3]) != (ref[1], ref[2], ref[3]):
                    bad.append(("host-state:%s" % ("cut-short-status" if kind == "loop" else ("uninitialised-memory" if kind == "rbw" else "defined-program")),
                                {"image": tag, "options": opt, "clean": [repr(ref[1][:60]), ref[2]], "other": [o[0], repr(o[1][:60]), o[2]]}))
                    break
        shutil.rmtree(d, ignore_errors=True)
    return nruns, bad


def memcheck_worker(job):
    cli, imgs = job
    bad = []
    n = 0
    for tag, blob, inp, kind, files in imgs:
        d = common.scratch("c12vg")
        p = os.path.join(d, "p.bin")
        open(p, "wb").write(blob)
        for k, data in files.items():
            open(os.path.join(d, "simin%d" % k), "wb").write(data)
        opt = ["--max-cycles", "20000"]
        try:
            r = subprocess.run(["valgrind", "-q", "--error-exitcode=77", "--track-origins=no", os.path.join(cli, "hexsim")] + opt + [p],
                               input=inp, stdout=subprocess.PIPE, stderr=subprocess.PIPE, cwd=d, timeout=600)
            n += 1
            if b"ninitialised" in r.stderr or b"Invalid" in r.stderr:
                first = [l for l in r.stderr.decode("latin-1").splitlines() if "==" in l][:6]
                bad.append(("memcheck", {"image": tag, "report": first}))
        except subprocess.TimeoutExpired:
            pass
        shutil.rmtree(d, ignore_errors=True)
    return n, bad


def long_runs(v, cli):
    """Runs of more than a million instructions, traced and untraced, with no cycle limit given: -t must change neither
    the exit status nor the simout files nor the input consumed (the trace itself is discarded)."""
    hx = xrun.build()
    res = common.run_harness(hx, [(i, {"src": s, "want": "noexec"}) for i, s in enumerate(LONG_X)], args=["cases"], tag="c12long")
    for i, src in enumerate(LONG_X):
        r = res[str(i)]
        if r["status"] != "ok" or not r["out"] or not r["out"].get("ok"):
            continue
        outs = []
        for flags in ([], ["-t"]):
            d = common.scratch("c12long")
            p = os.path.join(d, "p.bin")
            open(p, "wb").write(common.unhex(r["out"]["file"]))
            try:
                pr = subprocess.run([os.path.join(cli, "hexsim")] + flags + [p], input=b"Zq", stdout=subprocess.DEVNULL, stderr=subprocess.PIPE,
                                    cwd=d, timeout=600)
                files = {n: open(os.path.join(d, n), "rb").read() for n in sorted(os.listdir(d)) if n.startswith("simout")}
                outs.append((pr.returncode, files))
            except subprocess.TimeoutExpired:
                outs.append(("timeout", {}))
            shutil.rmtree(d, ignore_errors=True)
        v.cov["evaluations"] += 2
        v.count("long_traced_pairs", 1)
        if outs[0] != outs[1]:
            v.violation("long-run:trace-changes-behaviour", {"source": src, "untraced": [outs[0][0], {k: x.hex() for k, x in outs[0][1].items()}],
                                                              "traced": [outs[1][0], {k: x.hex() for k, x in outs[1][1].items()}]})


def run(tier, replay=None):
    v = Verdict("C12", tier)
    cli = build()
    hsim = common.build_cxx("h_sim", ["h_sim.cpp", "repo:hex.cpp"])
    rnd = random.Random(common.seed() * 19 + 12)
    if replay:
        print(open(replay).read()[:3000])
        return 2
    imgs = images(tier, rnd)
    W = common.NCPU
    v.count("images", len(imgs))
    # ---- (b) in-process, dirty storage, lock-step against zero-memory reference
    fills = [0, 255, 165, 256]
    dirty = dirty_image()
    cases, meta = [], []
    for i, (tag, blob, inp, kind, files) in enumerate(imgs):
        for f in fills:
            for trace in ((0, 1) if kind != "loop" else (0,)):
                mc = rnd.choice([1, 10, 1000, 100000]) if kind == "loop" else 0
                fields = {"file": blob, "input": inp, "fill": f, "fillseed": rnd.randrange(1 << 30), "maxcycles": mc,
                          "trace": trace, "hardlimit": 60000 if ":cut" in tag else 400000}
                for k, data in files.items():
                    fields["fin%d" % k] = data
                cases.append((len(cases), fields))
                meta.append((i, f, trace, mc))
        if kind != "loop":
            # the same image after another simulation in the same process
            fields = {"file": blob, "input": inp, "fill": 0, "fillseed": 1, "maxcycles": 0, "trace": 0,
                      "hardlimit": 60000 if ":cut" in tag else 400000, "prefile": dirty, "preinput": b""}
            for k, data in files.items():
                fields["fin%d" % k] = data
            cases.append((len(cases), fields))
            meta.append((i, "after-another-simulation", 0, 0))
    res = common.run_harness(hsim, cases, args=["cases"], tag="c12", timeout=6 * 3600)
    groups = {}
    rbw_total = 0
    leaves_range = set()
    for (cid, f), (i, fill, trace, mc) in zip(cases, meta):
        tag, blob, inp, kind, files = imgs[i]
        r = res[str(cid)]
        v.cov["evaluations"] += 1
        if r["status"] != "ok" or not r["out"]:
            v.violation("inproc:abnormal", {"image": tag, "fill": fill, "status": r["status"], "err": r["err"][-300:]})
            continue
        o = r["out"]
        if o["ended"] == "left-range" or (o["ended"] == "hardlimit" and kind != "loop"):
            # accesses outside the 200000-word memory: hexsim has no defined behaviour there (C02's range).  A run that is
            # still going at the in-process limit (e.g. a truncated image executing zero words towards the end of memory)
            # is not known to stay inside either, so it is not handed to the executable, which runs on.
            leaves_range.add(i)
        rbw_total += o["reads_before_write"]
        if o["ended"] == "mismatch":
            # with clean (zero) storage a divergence cannot come from uninitialised memory
            key = "inproc:unwritten-memory-not-zero" if fill not in (0, "after-another-simulation") else "inproc:depends-on-earlier-simulation" if fill != 0 else ("inproc:tracing-changes-state" if trace else "inproc:diverges-from-reference")
            v.violation(key, {"image": tag, "fill": fill, "trace": trace, "mismatch": o["mismatch"],
                              "reads_before_write": o["reads_before_write"]})
            continue
        key = (i, mc)
        groups.setdefault(key, []).append((fill, trace, o))
    for (i, mc), lst in groups.items():
        tag, blob, inp, kind, files = imgs[i]
        base = lst[0][2]
        for fill, trace, o in lst[1:]:
            same = (o["run_return"] == base["run_return"] and o["consumed"] == base["consumed"] and o["events"] == base["events"]
                    and o["ended"] == base["ended"])
            if not same:
                what = "cut-short-status" if kind == "loop" else ("trace-changes-behaviour" if trace != lst[0][1] and fill == lst[0][0] else "fill-dependent")
                v.violation("inproc:" + what, {"image": tag, "maxcycles": mc, "base": [lst[0][0], lst[0][1], base["run_return"], base["ended"]],
                                               "other": [fill, trace, o["run_return"], o["ended"]]})
                break
    v.count("reads_before_write_observed", rbw_total)
    v.count("in_process_runs", len(cases))
    v.cov["fills"] = ["0x00", "0xFF", "0xA5", "prng"]
    # ---- (a) executables under host states
    nst = 6 if tier == "quick" else 8
    states = host_states(rnd, nst)
    nexe = 1000 if tier == "quick" else 30000
    v.count("images_leaving_the_memory_range_or_not_finishing_excluded", len(leaves_range))
    imgs = [im for i, im in enumerate(imgs) if i not in leaves_range]
    budget = max(50, nexe // nst)
    special = [im for im in imgs if (im[3] != "defined" or im[0].startswith("io")) and ":cut" not in im[0]]
    cuts_ = [im for im in imgs if ":cut" in im[0]]
    plain = [im for im in imgs if im[3] == "defined" and not im[0].startswith("io")]
    # a third of what is left after the hand-written images goes to truncated files, the rest to generated programs
    room = max(0, budget - len(special))
    sel = special + cuts_[:room // 3] + plain[:room - min(len(cuts_), room // 3)]
    cuts = [1, 7, 100, 5000]
    outs = common.pmap(exe_worker, [(cli, sel[i::W], states, cuts) for i in range(W)])
    for n, bad in outs:
        v.cov["evaluations"] += n
        v.count("executable_runs", n)
        for code, rep in bad:
            v.violation(code, rep)
    v.cov["host_states"] = [s["name"] for s in states]
    long_runs(v, cli)
    # ---- (c) memcheck
    nvg = 48 if tier == "quick" else 2000
    vsel = [im for im in imgs if im[3] == "rbw"][:nvg // 2] + [im for im in imgs if im[0].startswith("io")][::2] + [im for im in imgs if im[3] != "rbw"][:nvg // 2]
    v.count("images_reading_file_streams", sum(1 for im in imgs if im[4] or im[0].startswith("io")))
    outs = common.pmap(memcheck_worker, [(cli, vsel[i::W]) for i in range(W)])
    for n, bad in outs:
        v.cov["evaluations"] += n
        v.count("memcheck_runs", n)
        for code, rep in bad:
            v.violation(code, rep)
    v.cov["distinct_nontrivial"] = len(imgs)
    v.cov["rule"] = ("one evaluation = one hexsim run (executable under a host state, in-process under a storage fill, or under memcheck); "
                     "distinct_nontrivial = distinct images, of which those marked rbw read words they never wrote")
    v.sample({"image_source": RBW_X[0], "host_states": [s["name"] for s in states]})
    v.sample({"asm_image": asm_rbw(random.Random(1))})
    v.assumptions = ["reference model memory is zero outside the image (docs/PDFs/hexb.pdf)", "host states are a sample; memcheck observes the dependency itself"]
    if rbw_total == 0:
        v.inconclusive.append("no read-before-write was observed")
    return v.finish(min_evaluations=500)
