"""C10: hexasm accepts or cleanly rejects every input.

Same construction as C09 on Lexer -> Parser -> CodeGen -> emitBin and the
hexasm executable; the HEX_VERIF layout-pass hook turns 'loops forever in
layout' into a logical step count (more than 8 x directives + 64 passes)."""
import glob
import os

from lib import bytegen, common
from checks import c09


def harness():
    return common.build_cxx("h_asm", ["h_asm.cpp", "repo:hex.cpp"], flavour="san")


def cli_san():
    return common.build_cxx("hexasm_san", ["repo:hexasm.cpp", "repo:hex.cpp"], flavour="cli-san")


def fuzz_target():
    return common.build_cxx("fz_asm", ["fz_asm.cpp", "repo:hex.cpp"], flavour="fuzz")


def build():
    harness()
    cli_san()
    fuzz_target()
    return common.build_cli()


def corpus(rnd):
    shipped = [open(f, encoding="latin-1").read() for f in sorted(glob.glob(os.path.join(common.REPO, "tests", "asm", "*.S")))
               if os.path.getsize(f) < 5000]
    return bytegen.asm_corpus(rnd, 150, shipped)


def run(tier, replay=None):
    return c09.run(tier, replay, which="asm", pid="C10", harness_fn=harness, cli_fn=cli_san, corpus_fn=corpus, tool="hexasm", fuzz_fn=fuzz_target)
