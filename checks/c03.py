"""C03: the Verilog processor is cycle-for-cycle equivalent to the ISA.

The Verilated hex (processor.sv + memory.sv) is clocked in lock-step with
hexsim::Processor (HEX_VERIF hook) and the reference ISA model: registers after
every clock, the store request before the edge and the written word after it,
and the system-call request are compared.  States are planted through
--public-flat-rw variables (2% also reached architecturally from reset), with
the one invariant reachable states have: oreg & 0xF = 0 at instruction boundaries."""
import json

from lib import common, rtl, xrun
from lib.common import Verdict
from checks import c16

OPC = c16.OPC


def build():
    xrun.build()
    return rtl.build_h_rtl()


def run(tier, replay=None):
    v = Verdict("C03", tier)
    exe = build()
    seed = common.seed()
    d = common.scratch("c03")
    if replay:
        case = json.load(open(replay))["case"]
        res = common.run_selfgen(exe, [case["args"]])
        print(json.dumps(res[0][2]["mismatch_list"] if res[0][2] else None, indent=1)[:3000])
        return 1 if res[0][2] is None or res[0][2]["mismatches"] else 0
    W = common.NCPU
    ngrid, nseq, nimg = (3000, 20000, 48) if tier == "quick" else (60000, 600000, 1500)
    imgs = c16.images(nimg, seed + 3, d)
    argsets = [["c03", seed * 1000 + w, ngrid // W + 1, nseq // W + 1, "@OUT"] + imgs[w::W] for w in range(W)]
    res = common.run_selfgen(exe, argsets, tag="c03", timeout=900 if tier == "quick" else 4 * 3600)
    table = [[0, 0, 0] for _ in range(16)]
    seen = [0] * 256
    tot = {}
    for args, rc, js, err in res:
        if rc != 0 or js is None:
            # a simulator fault inside a compared step is caught and reported as a mismatch by the harness itself;
            # anything else that kills the process is a failure of the machinery, not a verdict on the property
            raise common.HarnessError("lock-step worker ended with status %s: %s" % (rc, err[-500:]))
        for k in ("cycles", "cases", "stores", "sysreq", "filtered", "arch_reached", "binaries", "from_reset_cases"):
            tot[k] = tot.get(k, 0) + js.get(k, 0)
        for o in range(16):
            for c in range(3):
                table[o][c] += js["opc_table"][o][c]
        for i in range(256):
            seen[i] |= js["bytes_seen"][i]
        for m in js["mismatch_list"]:
            v.violation(m["what"].replace(" ", "-"), {"args": [str(a) for a in args[:5]], "mismatch": m})
        if js["mismatches"] > len(js["mismatch_list"]):
            v.violation("more-mismatches", {"args": [str(a) for a in args[:5]], "count": js["mismatches"]})
    v.cov["evaluations"] = tot.get("cycles", 0)
    v.cov["distinct_nontrivial"] = sum(seen)
    v.cov["rule"] = ("one evaluation = one clock / one retired instruction compared on RTL, hexsim and the reference model; "
                     "distinct_nontrivial = distinct defined instruction bytes executed (228 have a defined meaning)")
    v.cov["stores_compared"] = tot.get("stores", 0)
    v.cov["syscall_requests_compared"] = tot.get("sysreq", 0)
    v.cov["cases"] = tot.get("cases", 0)
    v.cov["cases_ended_by_common_range_filter"] = tot.get("filtered", 0)
    v.cov["states_reached_architecturally_from_reset"] = tot.get("arch_reached", 0)
    v.cov["toolchain_binaries_run_from_reset"] = tot.get("binaries", 0)
    v.cov["random_programs_run_from_reset_after_dirty_registers"] = tot.get("from_reset_cases", 0)
    v.cov["opcode_table"] = {OPC[o]: {"oreg_zero": table[o][0], "oreg_pos": table[o][1], "oreg_neg": table[o][2]} for o in range(16)}
    v.sample({"mode": "grid", "what": "256 bytes x %d planted states per worker" % (ngrid // W + 1)})
    v.sample({"mode": "seq", "what": "execute-driven defined sequences of up to 300 instructions, %d per worker" % (nseq // W + 1)})
    v.sample({"mode": "binary", "what": "%d toolchain images from reset, read system calls serviced identically on all sides" % len(imgs)})
    v.assumptions = ["harness/refisa.hpp supplies the range filter (byte addresses < 800000, word addresses < 200000, defined opcodes)",
                     "planted states have oreg & 0xF = 0, the invariant of every state reachable from reset",
                     "Verilator 5 honours writes to public variables at the next eval() (self-checked at start-up)"]
    if sum(seen) < 228:
        v.inconclusive.append("only %d of 228 defined instruction bytes reached" % sum(seen))
    return v.finish(min_evaluations=10000)
