"""C13: RTL testbench results do not depend on the power-on state.

(1) The real hextb executable is run with many +verilator+seed values; stdout and
exit status must be the same for every seed and equal to hexsim's.
(2) A harness that links hextb.cpp's own load()/run() plants adversarial power-on
states (registers and non-image memory) before the testbench starts: a system
call under the program counter, a store aimed at each class of image word, dirty
registers; the run must produce the clean result, and a run cut just before the
first post-reset instruction must find the image intact, the registers zero,
nothing written and no input consumed."""
import json
import os
import random
import subprocess

from lib import common, rtl, xgen, xref, xrun
from lib.common import Verdict

FIXED = [
    ("exit7", "proc main() is 0(7)", b""),
    ("hello", 'val put = 1; proc main() is { put(\'h\', 0); put(\'i\', 0); put(10, 0) }', b""),
    ("echo", "val put = 1; val get = 2; proc main() is { put(get(0), 0); put(get(0), 0); 0(3) }", b"xy"),
    ("loop", "var g; proc main() is var i; { g := 0; i := 0; while i < 20 do { g := g + i; i := i + 1 }; 0(g) }", b""),
    ("rec", "func f(val n) is if n <= 0 then return 0 else return n + f(n - 1) proc main() is 0(f(12))", b""),
    ("arr", "array a[5]; proc main() is var i; { i := 0; while i < 5 do { a[i] := i + i; i := i + 1 }; 1(a[4] + 48, 0); 0(a[3]) }", b""),
    # input that runs out, bytes >= 0x80, reads at a stack depth nothing has written yet, a file stream without a file:
    # what a read delivers then is defined (end of input), so it must not depend on the power-on state either
    ("eof", "val put = 1; val get = 2; proc main() is { put(get(0), 0); put(get(0), 0); put(get(0) - 190, 0); 0(3) }", b"x"),
    ("empty", "val get = 2; proc main() is var c; { c := get(0); if c = 255 then 0(7) else if c = 65 then 0(8) else 0(9) }", b""),
    ("high", "val put = 1; val get = 2; proc main() is var c; { c := get(0); put(c, 0); c := get(0); if c < 128 then 0(1) else 0(2) }", b"\xff\x80"),
    ("deep", "val get = 2; func r(val n) is if n <= 0 then return get(0) + get(0) else return r(n - 1) + 1 proc main() is 0(r(9))", b"A"),
    ("nofile", "val put = 1; val get = 2; proc main() is var c; { c := get(256); put(c - 200, 0); 0(get(512) - 250) }", b""),
]


def build():
    xrun.build()
    common.build_cli()
    return rtl.build_h_tb()


def compile_all(progs):
    exe = xrun.build()
    cases = [(i, {"src": src, "want": "noexec"}) for i, (_, src, _) in enumerate(progs)]
    res = common.run_harness(exe, cases, args=["cases"], tag="c13img")
    out = []
    for i, (name, src, inp) in enumerate(progs):
        r = res[str(i)]
        if r["status"] == "ok" and r["out"] and r["out"].get("ok"):
            out.append((name, src, inp, common.unhex(r["out"]["file"])))
    return out


def expected(cli, d, blob, inp):
    p = os.path.join(d, "e.bin")
    open(p, "wb").write(blob)
    r = subprocess.run([os.path.join(cli, "hexsim"), p], input=inp, stdout=subprocess.PIPE, stderr=subprocess.PIPE, cwd=d, timeout=60)
    return r.stdout, r.returncode


def exe_worker(job):
    cli, name, blob, inp, seeds, want_out, want_rc = job
    d = common.scratch("c13exe")
    p = os.path.join(d, "p.bin")
    open(p, "wb").write(blob)
    bad = []
    outcomes = {}
    for s in seeds:
        try:
            r = subprocess.run([os.path.join(cli, "hextb"), "+verilator+seed+%d" % s, "--max-cycles", "400000", p], input=inp,
                               stdout=subprocess.PIPE, stderr=subprocess.PIPE, cwd=d, timeout=120)
            out, rc = r.stdout, r.returncode
        except subprocess.TimeoutExpired:
            out, rc = b"", "timeout"
        banner, _, rest = out.partition(b"\n")
        key = (rest, rc)
        outcomes[key] = outcomes.get(key, 0) + 1
        if rest != want_out or rc != want_rc or not banner.startswith(b"Wrote "):
            bad.append((s, rc, rest[:80], r.stderr[:120] if rc != "timeout" else b""))
    return name, len(seeds), bad, len(outcomes)


def plant_cases(progs, n, rnd):
    """-> list of (case-id, fields, meta)"""
    out = []
    for i in range(n):
        name, src, inp, blob = progs[i % len(progs)]
        words = len(blob) // 4 - 1
        kind = rnd.choice(["svc", "svc", "store", "store", "store", "dirty", "none"])
        f = {"file": blob, "input": inp, "seed": rnd.randrange(1, 1 << 30), "plant": kind}
        if kind == "svc":
            f.update(p0=rnd.randrange(4), p1=rnd.randrange(16), p2=rnd.choice([rnd.randrange(words + 8), rnd.randrange(200000), 199990]), p3=rnd.randrange(1 << 16))
        elif kind == "store":
            target = rnd.choice([0, 1, rnd.randrange(words), rnd.randrange(words), words - 1, 2, 3])
            f.update(p0=target, p1=rnd.randrange(2), p2=rnd.randrange(1 << 16), p3=rnd.randrange(1 << 16))
        elif kind == "dirty":
            f.update(p0=rnd.randrange(4 * words), p1=rnd.randrange(1 << 32), p2=rnd.randrange(1 << 32), p3=rnd.randrange(1 << 32))
        inspect = rnd.random() < 0.5
        f["inspect"] = 1 if inspect else 0
        f["maxcycles"] = 4 if inspect else 400000
        out.append((i, f, {"prog": name, "kind": kind, "inspect": inspect}))
    return out


def run(tier, replay=None):
    v = Verdict("C13", tier)
    htb = build()
    cli = common.build_cli()
    seed = common.seed()
    rnd = random.Random(seed * 13 + 5)
    d = common.scratch("c13")
    progs = list(FIXED)
    nextra = 0 if tier == "quick" else 34
    for i in range(nextra):
        prog, console, files = xgen.random_program(random.Random(rnd.randrange(1 << 62)), size=0.5)
        ref = xref.Interp(prog, console, {}).run()
        if ref["status"] == "defined" and not files:
            progs.append(("gen%d" % i, xref.render_program(prog), console))
    comp = compile_all(progs)
    if replay:
        case = json.load(open(replay))["case"]
        if "seed" in case and "prog" in case:
            name, src, inp, blob = next(c for c in comp if c[0] == case["prog"])
            want_out, want_rc = expected(cli, d, blob, inp)
            r = exe_worker((cli, name, blob, inp, [case["seed"]], want_out, want_rc))
            print(r)
            return 1 if r[2] else 0
        return 2
    # ---- (1) executable level
    nseeds = 1500 if tier == "quick" else 10000
    jobs = []
    for name, src, inp, blob in comp:
        want_out, want_rc = expected(cli, d, blob, inp)
        base = rnd.randrange(1, 1 << 20)
        seeds = list(range(base, base + nseeds))
        k = max(1, nseeds // 8)
        for i in range(0, nseeds, k):
            jobs.append((cli, name, blob, inp, seeds[i:i + k], want_out, want_rc))
    res = common.pmap(exe_worker, jobs)
    for name, n, bad, nout in res:
        v.cov["evaluations"] += n
        v.count("executable_runs", n)
        for s, rc, rest, err in bad:
            v.violation("seed-dependent:%s" % ("timeout" if rc == "timeout" else "wrong-result"),
                        {"prog": name, "seed": s, "status": rc, "stdout": repr(rest), "stderr": repr(err)})
    v.cov["seeds_per_binary"] = nseeds
    v.cov["binaries"] = len(comp)
    # ---- (2) planted adversarial states
    nplant = 20000 if tier == "quick" else 1000000
    pcs = plant_cases(comp, nplant, rnd)
    cases = [(i, f) for i, f, m in pcs]
    pres = common.run_harness(htb, cases, args=["cases"], tag="c13", timeout=6 * 3600)
    wants = {name: expected(cli, d, blob, inp) for name, src, inp, blob in comp}
    blobs = {name: blob for name, src, inp, blob in comp}
    byclass = {}
    for i, f, m in pcs:
        r = pres[str(i)]
        cls = m["kind"] + ("/inspect" if m["inspect"] else "/run")
        byclass[cls] = byclass.get(cls, 0) + 1
        v.cov["evaluations"] += 1
        rep = {"prog": m["prog"], "plant": {k: f[k] for k in f if k not in ("file", "input")}}
        if r["status"] != "ok" or not r["out"]:
            v.violation("planted:%s:abnormal" % m["kind"], dict(rep, status=r["status"], err=r["err"][-300:]))
            continue
        o = r["out"]
        if not o["plant_ok"]:
            raise common.HarnessError("cannot reach the model's registers by name")
        out = common.unhex(o["stdout"])
        banner, _, rest = out.partition(b"\n")
        want_out, want_rc = wants[m["prog"]]
        if m["inspect"]:
            errs = []
            if o["regs_after"] != [0, 0, 0, 0]:
                errs.append("registers %r just before the first post-reset instruction" % o["regs_after"])
            blob = blobs[m["prog"]]
            img = blob[4:4 + 4 * int.from_bytes(blob[:4], "little")]
            if common.unhex(o["image_after"]) != img:
                errs.append("image changed before execution began")
            if rest or o["consumed"] or o["thrown"]:
                errs.append("output %r, consumed %d, exception %r before reset completed" % (rest[:40], o["consumed"], o["thrown"]))
            if errs:
                v.violation("planted:%s:pre-reset-activity" % m["kind"], dict(rep, why=errs))
        else:
            if o["thrown"] or rest != want_out or (o["status"] & 0xFF) != want_rc:
                v.violation("planted:%s:wrong-result" % m["kind"],
                            dict(rep, status=o["status"], thrown=o["thrown"], stdout=repr(rest[:80]), expected=[repr(want_out[:80]), want_rc]))
    v.cov["planted_states_by_class"] = byclass
    v.cov["distinct_nontrivial"] = len(comp) * nseeds + sum(n for c, n in byclass.items() if not c.startswith("none"))
    v.cov["rule"] = ("one evaluation = one hextb run (executable with a distinct seed, or harness run with a distinct planted power-on "
                     "state); non-trivial = distinct (binary, seed) pairs plus planted states other than 'none'")
    v.sample({"binary": comp[0][1], "executable": "hextb +verilator+seed+N p.bin for N in a window of %d seeds" % nseeds})
    v.sample({"planted": pcs[0][2], "fields": {k: pcs[0][1][k] for k in pcs[0][1] if k not in ("file", "input")}})
    v.assumptions = ["hexsim's result on the same binary and input is the expected result",
                     "power-on states are sampled (seeds) and targeted (planting), not enumerated"]
    return v.finish(min_evaluations=1000)
