"""C15: trace and debug symbols report what is actually executing.

hexsim -t output (in-process, to a string stream) is matched record by record
against the reference ISA model's step trace; the symbol column against code
ranges read from the binary's own symbol table by lib/asmsrc.parse_debug; the
table against the source's procedures; and the sequence of procedure entries
(detected on the reference model without using the table) against the
reference interpreter's call log."""
import json
import random

from lib import asmsrc, common, xgen, xref, xrun
from lib.common import Verdict
from checks import c01

OPCN = ["LDAM", "LDBM", "STAM", "LDAC", "LDBC", "LDAP", "LDAI", "LDBI", "STAI", "BR", "BRZ", "BRN", "UNKNOWN", "OPR", "PFIX", "NFIX"]


def build():
    return xrun.build()


def s32(v):
    return v - (1 << 32) if v & 0x80000000 else v


def judge(rec, prog):
    """-> (status, errs, stats)"""
    ref = rec["ref"]
    if ref["status"] != "defined":
        return "dropped", [], None
    r = rec["res"]
    if r["status"] != "ok" or not r["out"] or not r["out"].get("ok") or "trace" not in r["out"]:
        return "uncompiled", [], None
    o = r["out"]
    t = o["trace"]
    if o["ended"] != "exit" or t["ended"] != "exit":
        return "unfinished", [], None
    errs = []
    stats = {"lines": 0, "symbols": 0, "entries": 0, "procs": 0, "forced": 0}
    blob = common.unhex(o["file"])
    try:
        img, dbg, words = asmsrc.split_file(blob)
        syms = asmsrc.parse_debug(dbg)
    except ValueError as e:
        return "checked", [("table-format", str(e))], stats
    # --- table vs source
    names = [p["name"] for p in prog["procs"]]
    if sorted(n for n, _ in syms) != sorted(names):
        errs.append(("table-names", "table lists %r, source defines %r" % ([n for n, _ in syms], names)))
    offs = [off for _, off in syms]
    if any(b <= a for a, b in zip(offs, offs[1:])):
        errs.append(("table-order", "offsets not strictly increasing: %r" % syms))
    if [(x["name"], x["offset"]) for x in t["loader_symbols"]] != syms:
        errs.append(("loader", "hexsim loaded %r, file holds %r" % (t["loader_symbols"][:4], syms[:4])))
    stats["procs"] = len(syms)
    table = dict(syms)
    # --- entries vs call log
    entries = o["entries"]
    calls = ref["calls"]
    if len(entries) != len(calls):
        errs.append(("entry-count", "%d call sequences executed, reference made %d calls" % (len(entries), len(calls))))
    forced = ref["multi_call_groups"] == 0     # X leaves the order of calls in sibling operands open
    if forced:
        for k, (addr, name) in enumerate(zip(entries, calls)):
            if table.get(name) != addr:
                errs.append(("entry-address", "call %d enters %d, table says %s is at %s" % (k, addr, name, table.get(name))))
                break
    elif sorted(entries) != sorted(table.get(n, -1) for n in calls):
        errs.append(("entry-multiset", "entered addresses %r, expected the entries of %r" % (sorted(entries)[:10], calls[:10])))
    stats["entries"] = len(entries)
    stats["forced"] = 1 if forced else 0

    def sym_for(pc):
        if not syms or pc < syms[0][1]:
            return ""
        cur = None
        for n, off in syms:
            if off <= pc:
                cur = (n, off)
        return "%s+%d" % (cur[0], pc - cur[1])
    # --- trace text vs step trace
    text = t["text"].encode("latin-1")
    steps = t["steps"]
    evs = t["events"]
    ei = 0
    pos = 0
    entered = []
    for k in range(len(steps) // 2):
        pc, inst = steps[2 * k], steps[2 * k + 1]
        symtxt = sym_for(pc)
        prefix = ("%-6d %-6d %-12s %-4s %-2d " % (k, pc, symtxt, OPCN[inst >> 4], inst & 15)).encode("latin-1")
        if text[pos:pos + len(prefix)] != prefix:
            errs.append(("trace-line", "record %d: expected %r, trace has %r" % (k, prefix.decode("latin-1"), text[pos:pos + len(prefix) + 10].decode("latin-1"))))
            break
        pos += len(prefix)
        stats["lines"] += 1
        if symtxt:
            stats["symbols"] += 1
            if symtxt.endswith("+0"):
                entered.append(symtxt[:-2])
        if inst == 0xD3 and ei < len(evs) and evs[ei]["at"] == k + 1:
            e = evs[ei]
            ei += 1
            if e["n"] == 0:
                exp = b"exit %d\n" % e["a0"]
            elif e["n"] == 1:
                st = s32(e["a1"])
                exp = (bytes([e["a0"] & 0xFF]) if st < 256 else b"") + b"write %d to simout(%d)\n" % (e["a0"], e["a1"])
            else:
                sp_word = None
                exp = None
            if exp is not None:
                if text[pos:pos + len(exp)] != exp:
                    errs.append(("trace-syscall", "record %d: expected %r, trace has %r" % (k, exp, text[pos:pos + len(exp) + 8])))
                    break
                pos += len(exp)
                continue
        nl = text.find(b"\n", pos)
        if nl < 0:
            errs.append(("trace-line", "record %d has no line end" % k))
            break
        pos = nl + 1
    else:
        if len(steps) // 2 == t["cycles"] and pos != len(text):
            errs.append(("trace-extra", "%d bytes of trace after the last record" % (len(text) - pos)))
        if len(steps) // 2 == t["cycles"] and (entered != calls if forced else sorted(entered) != sorted(calls)):
            errs.append(("entry-sequence", "trace shows entries %r, reference calls %r" % (entered[:12], calls[:12])))
    # --- tracing must not change behaviour (C12 clause, cheap to check here)
    if t["run_return"] != o["run_return"] or t["consumed"] != o["consumed"] or \
            [(e["n"], e["a0"], e.get("a1"), e.get("r")) for e in t["events"]] != [(e["n"], e["a0"], e.get("a1"), e.get("r")) for e in o["events"]]:
        errs.append(("trace-changes-behaviour", "exit/input/syscalls differ between traced and untraced run"))
    return "checked", errs, stats


def large_program(nstmts, rnd):
    """A program whose code is far larger than anything the generators produce (about 6 bytes per filler statement):
    procedures that are never called push `far`, `twice` and `main` to byte offsets beyond 2^16, 200000, 2^18 or 2^19;
    the traced run only executes near, far, twice and main."""
    nfill = rnd.randrange(1, 5)
    per = nstmts // nfill
    fill_stmt = ("ass", ("var", "g"), ("bin", "-", ("bin", "+", ("var", "g"), ("num", 70001)), ("var", "h")))
    procs = [{"kind": "proc", "name": "near", "formals": [], "locals": [], "body": ("sysst", 1, [("chr", ord("n")), ("num", 0)])}]
    for k in range(nfill):
        procs.append({"kind": "proc", "name": "fill%d" % k, "formals": [], "locals": [], "body": ("seq", [fill_stmt] * per)})
    tail = [{"kind": "proc", "name": "far", "formals": [], "locals": [], "body": ("sysst", 1, [("chr", ord("f")), ("num", 0)])},
            {"kind": "func", "name": "twice", "formals": [("val", "x")], "locals": [], "body": ("ret", ("bin", "+", ("var", "x"), ("var", "x")))},
            {"kind": "proc", "name": "main", "formals": [], "locals": [],
             "body": ("seq", [("callst", "near", []), ("callst", "far", []), ("callst", "near", []),
                              ("sysst", 0, [("call", "twice", [("num", rnd.randrange(1, 100))])])])}]
    rnd.shuffle(tail)
    return {"globals": [("var", "g"), ("var", "h")], "procs": procs + tail}


def worker(job):
    wseed, n, exe = job
    rnd = random.Random(wseed)
    items = []
    progs = []
    if isinstance(n, list):
        for k in n:
            prog = large_program(k, rnd)
            items.append(("large:%d" % k, prog, b"", {}))
            progs.append(prog)
        n = len(items)
    for i in range(n if not items else 0):
        sub = rnd.randrange(1 << 62)
        prog, console, files = xgen.random_program(random.Random(sub))
        items.append(("random:%d" % sub, prog, console, files))
        progs.append(prog)
    recs = xrun.evaluate(items, exe, want="trace", max_steps=3000, budget_mult=100)
    out = {"n": n, "checked": 0, "viol": [], "lines": 0, "symbols": 0, "entries": 0, "procs": 0, "forced": 0, "sample": None, "distinct": set()}
    for rec, prog in zip(recs, progs):
        status, errs, stats = judge(rec, prog)
        if status != "checked":
            continue
        out["checked"] += 1
        for k in ("lines", "symbols", "entries", "procs", "forced"):
            out[k] += stats[k]
        if stats["entries"] > 1:
            out["distinct"].add(hash(rec["src"]))
        if out["sample"] is None and stats["lines"] and len(rec["src"]) < 500:
            t = rec["res"]["out"]["trace"]["text"]
            out["sample"] = {"source": rec["src"], "trace_head": t[:400], "calls": rec["ref"]["calls"][:10]}
        if errs:
            rep = xrun.replay_record(rec)
            rep["why"] = errs[0][1]
            out["viol"].append((errs[0][0], rep))
    out["distinct"] = len(out["distinct"])
    return out


def run(tier, replay=None):
    v = Verdict("C15", tier)
    exe = build()
    if replay:
        case = json.load(open(replay))["case"]
        prog = xref.parse(case["source"])
        recs = xrun.evaluate([("replay", prog, bytes.fromhex(case["input_hex"]),
                               {int(k): bytes.fromhex(x) for k, x in case.get("files", {}).items()})], exe, want="trace", max_steps=3000)
        st, errs, stats = judge(recs[0], prog)
        print(st, errs)
        return 1 if errs else 0
    total = 3000 if tier == "quick" else 100000
    W = common.NCPU * (1 if tier == "quick" else 6)
    jobs = [(common.seed() * 424243 + w, total // W + 1, exe) for w in range(W)]
    sizes = [11500, 34000, 45000] if tier == "quick" else [3000, 10500, 11000, 11500, 20000, 32000, 33000, 34000, 36000, 43000, 44000, 45000, 60000, 86000, 88000, 100000]
    jobs += [(common.seed() * 77 + k, [k], exe) for k in sizes]
    v.cov["large_programs_filler_statements"] = sizes
    outs = common.pmap(worker, jobs)
    for o in outs:
        v.cov["evaluations"] += o["checked"]
        v.cov["distinct_nontrivial"] += o["distinct"]
        v.count("programs_generated", o["n"])
        v.count("trace_lines_checked", o["lines"])
        v.count("symbol_columns_checked", o["symbols"])
        v.count("procedure_entries_matched", o["entries"])
        v.count("symbol_table_entries_checked", o["procs"])
        v.count("programs_with_source_forced_call_order", o["forced"])
        if o["sample"]:
            v.sample(o["sample"], limit=2)
        for code, rep in o["viol"]:
            v.violation(code, rep)
    v.cov["rule"] = ("one evaluation = one well-defined program run with tracing on whose whole trace text was matched; "
                     "non-trivial = distinct source with at least one call besides the entry stub's call of main")
    v.assumptions = ["reference ISA model step trace, reference interpreter call log, lib/asmsrc.parse_debug reading of the binary's tables",
                     "a call is a taken BR directly after an LDAP that loaded the address following the BR"]
    return v.finish(min_evaluations=300)
