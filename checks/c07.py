"""C07: compile-time evaluation agrees with run-time evaluation.

Each expression is compiled in variants that differ only in how the leaves
are supplied: K = literals / val names (ConstProp, OptimiseExpr and genConst
act), R = variables assigned at run time, M = a per-leaf mixture.  The
variants must give the same exit value and output on hexsim; equality of the
variants *is* the property (the 32-bit wrap-around value computed by this
file is logged only to say which side is wrong)."""
import itertools
import json
import random

from lib import common, xref, xrun
from lib.common import Verdict

M32 = 0xFFFFFFFF
VALUES = [0, 1, -1, 2, -2, 15, 16, 17, -15, -16, -17, 255, 256, 257, -255, -256, -257, 4095, 4096, 4097,
          -4095, -4096, -4097, 65535, 65536, 65537, -65535, -65536, -65537, (1 << 31) - 2, (1 << 31) - 1,
          -(1 << 31), -(1 << 31) + 1, -(1 << 31) + 2, 1 << 30, -(1 << 30), 0x7FFF0000, 3, 7, 100, -100, 1000000, -1000000]
ARITH = ["+", "-"]
REL = ["=", "~=", "<", "<=", ">", ">="]
LOGIC = ["and", "or"]
CONTEXTS = ["exitarg", "assign", "actual", "return", "condition", "sysarg", "subscript", "nested", "valdecl", "constnest", "constcmp",
            "ifvalue", "whilevalue"]


def s32(v):
    v &= M32
    return v - (1 << 32) if v & 0x80000000 else v


def wrap_eval(e, env):
    """32-bit wrap-around evaluation as the generated run-time code performs it (logged, not deciding)."""
    k = e[0]
    if k == "num":
        return s32(e[1])
    if k == "leaf":
        return env[e[1]]
    if k == "un":
        v = wrap_eval(e[2], env)
        return s32(-v) if e[1] == "-" else (1 if v == 0 else 0)
    a, b = wrap_eval(e[2], env), wrap_eval(e[3], env)
    op = e[1]
    if op == "+":
        return s32(a + b)
    if op == "-":
        return s32(a - b)
    if op == "=":
        return int(a == b)
    if op == "~=":
        return int(a != b)
    if op == "<":
        return int(s32(a - b) < 0)
    if op == ">":
        return int(s32(b - a) < 0)
    if op == "<=":
        return int(not s32(b - a) < 0)
    if op == ">=":
        return int(not s32(a - b) < 0)
    if op == "and":
        return b if a else 0
    if op == "or":
        return 1 if a else b
    raise ValueError(op)


def lit(v):
    return ("num", v)


def spell(v, rnd):
    """a literal of value v in one of the source spellings X has for it: a number, `true`/`false`, a character
    constant or a hexadecimal number (each is its own AST node and goes through its own code-generation path)"""
    x = rnd.random() if rnd is not None else 1.0
    if v in (0, 1) and x < 0.4:
        return ("bool", bool(v))
    if 32 <= v < 127 and v not in (39, 92) and x < 0.3:
        return ("chr", v)
    if 0 <= v <= 0x7FFFFFFF and x < 0.15:
        return ("hex", v)
    return lit(v)


def instantiate(e, vals, mode, rnd=None, valnames=None, eff=None):
    """leaves -> literal (K), val name (K via val), variable (R); the leaf with index `eff` is wrapped in a call of
    tick(), which writes a byte and returns its argument, in every variant: the call must be made (or skipped by
    short-circuit evaluation) in the same way however the other operands are supplied"""
    k = e[0]
    if k == "leaf" and eff is not None and e[1] == eff:
        return ("call", "tick", [instantiate(e, vals, mode, rnd, valnames, None)])
    if k == "leaf":
        i = e[1]
        m = mode if mode != "M" else rnd.choice(["K", "R", "V"])
        if mode == "K" and valnames is not None and i in valnames:
            m = "V"
        if m == "K":
            return spell(vals[i], rnd)
        if m == "V":
            return ("var", "c%d" % i)
        return ("var", "x%d" % i)
    if k == "num":
        return e
    if k == "un":
        return ("un", e[1], instantiate(e[2], vals, mode, rnd, valnames, eff))
    return ("bin", e[1], instantiate(e[2], vals, mode, rnd, valnames, eff), instantiate(e[3], vals, mode, rnd, valnames, eff))


TICK = {"kind": "func", "name": "tick", "formals": [("val", "x")], "locals": [],
        "body": ("seq", [("sysst", 1, [("num", 116), ("num", 0)]), ("ret", ("var", "x"))])}


def program(e, vals, mode, context, rnd, boolean, eff=None):
    valnames = set(i for i in range(len(vals)) if rnd.random() < 0.3)
    E = instantiate(e, vals, mode, rnd, valnames, eff)
    globs = [("val", "c%d" % i, spell(v, rnd)) for i, v in enumerate(vals)]
    globs += [("var", "x%d" % i) for i in range(len(vals))] + [("var", "r"), ("array", "tab", ("num", 8))]
    init = [("ass", ("var", "x%d" % i), lit(v)) for i, v in enumerate(vals)]
    init += [("ass", ("sub", "tab", ("num", i)), ("num", 1000 + i)) for i in range(8)]
    procs = [{"kind": "func", "name": "id", "formals": [("val", "x")], "locals": [], "body": ("ret", ("var", "x"))}]
    if eff is not None:
        procs.append(TICK)
    if context == "exitarg":
        body = [("sysst", 0, [E])]
    elif context == "assign":
        body = [("ass", ("var", "r"), E), ("sysst", 0, [("var", "r")])]
    elif context == "actual":
        body = [("sysst", 0, [("call", "id", [E])])]
    elif context == "return":
        procs.append({"kind": "func", "name": "w", "formals": [], "locals": [], "body": ("ret", E)})
        body = [("sysst", 0, [("call", "w", [])])]
    elif context == "condition":
        c = E if boolean else ("bin", "<", E, ("num", 3))
        body = [("if", c, ("sysst", 0, [("num", 11)]), ("sysst", 0, [("num", 22)]))]
    elif context == "ifvalue":
        # the value itself decides (any non-zero value takes the first branch), whatever its type
        body = [("if", E, ("sysst", 0, [("num", 11)]), ("sysst", 0, [("num", 22)]))]
    elif context == "whilevalue":
        body = [("ass", ("var", "r"), ("num", 0)),
                ("while", ("bin", "and", ("bin", "<", ("var", "r"), ("num", 3)), ("bin", "~=", E, ("num", 0))),
                 ("ass", ("var", "r"), ("bin", "+", ("var", "r"), ("num", 1)))),
                ("sysst", 0, [("var", "r")])]
    elif context == "sysarg":
        body = [("sysst", 1, [E, ("num", 0)]), ("sysst", 0, [("num", 0)])]
    elif context == "subscript":
        body = [("sysst", 0, [("sub", "tab", E)])]
    elif context == "nested":
        body = [("sysst", 0, [("bin", "+", ("var", "x0"), ("bin", "-", E, ("var", "x0")))])]
    elif context == "valdecl":
        # the folded value is what a val carries; with run-time leaves the same expression is assigned instead
        if mode == "K":
            globs.insert(len(vals), ("val", "vres", E))
            body = [("sysst", 0, [("var", "vres")])]
        else:
            body = [("ass", ("var", "r"), E), ("sysst", 0, [("var", "r")])]
    elif context == "constnest":
        # the folded value feeds an enclosing constant expression (OptimiseExpr rewrites a relational operator that
        # sits directly in a non-constant context, so only nesting or a val exposes its folded value)
        body = [("sysst", 0, [("bin", "+", E, ("num", 0))])]
    elif context == "constcmp":
        body = [("sysst", 0, [("bin", "-", ("num", 1), ("bin", "=", E, ("num", 1)))])]
    else:
        raise ValueError(context)
    procs.append({"kind": "proc", "name": "main", "formals": [], "locals": [], "body": ("seq", init + body)})
    return {"globals": globs, "procs": procs}


def nleaves(e):
    if e[0] == "leaf":
        return 1
    if e[0] == "num":
        return 0
    if e[0] == "un":
        return nleaves(e[2])
    return nleaves(e[2]) + nleaves(e[3])


def random_tree(rnd, depth, boolean, counter):
    if depth == 0 or rnd.random() < 0.25:
        i = counter[0]
        counter[0] += 1
        counter.append(boolean)
        return ("leaf", i)
    if boolean:
        x = rnd.random()
        if x < 0.45:
            return ("bin", rnd.choice(REL), random_tree(rnd, depth - 1, False, counter), random_tree(rnd, depth - 1, False, counter))
        if x < 0.6:
            return ("un", "~", random_tree(rnd, depth - 1, True, counter))
        return ("bin", rnd.choice(LOGIC), random_tree(rnd, depth - 1, True, counter), random_tree(rnd, depth - 1, True, counter))
    x = rnd.random()
    if x < 0.7:
        return ("bin", rnd.choice(ARITH), random_tree(rnd, depth - 1, False, counter), random_tree(rnd, depth - 1, False, counter))
    if x < 0.8:
        return ("un", "-", random_tree(rnd, depth - 1, False, counter))
    return random_tree(rnd, depth - 1, True, counter)      # relational value used as an integer


def build():
    return xrun.build()


def outcome(r):
    if r["status"] != "ok" or not r["out"]:
        return ("abnormal", r["status"], r["err"][-300:])
    o = r["out"]
    if not o["ok"]:
        return ("rejected", o["errtype"], o["err"][:100])
    if o["ended"] != "exit":
        return ("ended", o["ended"])
    return ("exit", o["run_return"], o["console"])


def worker(job):
    groups, exe = job
    cases = []
    for gi, g in enumerate(groups):
        for vi, (mode, src) in enumerate(g["variants"]):
            cases.append(("%d_%d" % (gi, vi), {"src": src, "input": b"", "maxcycles": 50000}))
    res = common.run_harness_single(exe, cases, args=["cases"], tag="c07")
    out = {"groups": len(groups), "pairs": 0, "viol": [], "ops": {}, "ctx": {}, "pool": 0, "sample": None, "wrapdiff": 0,
           "distinct": 0}
    for gi, g in enumerate(groups):
        outs = [outcome(res["%d_%d" % (gi, vi)]) for vi in range(len(g["variants"]))]
        out["pairs"] += len(outs) - 1
        out["ops"][g["op"]] = out["ops"].get(g["op"], 0) + 1
        out["ctx"][g["context"]] = out["ctx"].get(g["context"], 0) + 1
        out["distinct"] += 1
        ok = all(o == outs[0] for o in outs) and outs[0][0] == "exit"
        if out["sample"] is None and gi % 97 == 3:
            out["sample"] = {"expr": g["text"], "context": g["context"], "variants": [m for m, _ in g["variants"]],
                             "outcome": list(outs[0])[:2], "wrap_value": g["wrap"]}
        if not ok:
            modes = [m for m, _ in g["variants"]]
            if outs[0][0] in ("abnormal", "rejected") or any(o[0] in ("abnormal", "rejected") for o in outs):
                code = "compiler:" + next(o for o in outs if o[0] in ("abnormal", "rejected"))[1].split()[0]
            else:
                code = "variants-differ:" + g["klass"]
            out["viol"].append((code, {"expr": g["text"], "values": g["vals"], "context": g["context"],
                                        "outcomes": {m: list(o)[:3] for m, o in zip(modes, outs)},
                                        "wrap_value": g["wrap"], "sources": {m: s for m, s in g["variants"]}}))
    return out


def klass(op, vals, e):
    """coarse class of the operand values for violation keys"""
    if op in ("<", "<=", ">", ">=") and len(vals) == 2:
        d = vals[0] - vals[1]
        if d < -(1 << 31) or d > (1 << 31) - 1 or -d > (1 << 31) - 1:
            return op + ":difference-overflows"
    if op in ("+", "-") and len(vals) == 2:
        r = vals[0] + vals[1] if op == "+" else vals[0] - vals[1]
        if r < -(1 << 31) or r > (1 << 31) - 1:
            return op + ":result-wraps"
    if op == "neg" and vals and vals[0] == -(1 << 31):
        return "neg:int-min"
    return op


def make_group(e, vals, context, rnd, boolean, op, eff=None):
    variants = []
    if context == "valdecl":
        eff = None          # the initialiser of a val has to be constant
    modes = ["K", "R"] + (["M"] if nleaves(e) > 1 else []) + (["M"] if nleaves(e) > 2 else [])
    for m in modes:
        variants.append((m, xref.render_program(program(e, vals, m, context, rnd, boolean, eff))))
    env = {i: v for i, v in enumerate(vals)}
    try:
        w = wrap_eval(e, env)
    except Exception:
        w = None
    return {"variants": variants, "op": op, "context": context, "vals": vals, "wrap": w,
            "text": xref.render_expr(instantiate(e, vals, "K", rnd, set(), eff)), "klass": klass(op, vals, e) + ("+call" if eff is not None else "")}


def groups_for(tier, rnd):
    groups = []
    vals = list(VALUES)
    while len(vals) < 61:
        vals.append(rnd.randrange(-(1 << 31), 1 << 31))
    # (a) complete grid: every binary operator x value x value; contexts rotate (quick) or all (thorough)
    n = 0
    for op in ARITH + REL:
        for a, b in itertools.product(vals, vals):
            e = ("bin", op, ("leaf", 0), ("leaf", 1))
            boolean = op in REL
            ctxs = CONTEXTS if tier != "quick" and n % 16 == 0 else [CONTEXTS[n % len(CONTEXTS)]]
            if op in REL:
                ctxs = list(dict.fromkeys(list(ctxs) + [("valdecl", "constnest", "constcmp")[n % 3]]))
            n += 1
            for ctx in ctxs:
                if ctx == "subscript":
                    w = wrap_eval(e, {0: a, 1: b})
                    if not (0 <= w < 8):
                        ctx = "exitarg"
                groups.append(make_group(e, [a, b], ctx, rnd, boolean, op))
    for op in LOGIC:
        for a, b in itertools.product([0, 1], [0, 1]):
            for ctx in CONTEXTS:
                groups.append(make_group(("bin", op, ("leaf", 0), ("leaf", 1)), [a, b], ctx, rnd, True, op))
                for eff in (0, 1):
                    groups.append(make_group(("bin", op, ("leaf", 0), ("leaf", 1)), [a, b], ctx, rnd, True, op, eff))
    for a in vals:
        for ctx in (CONTEXTS if tier != "quick" else CONTEXTS[:3]):
            e = ("un", "-", ("leaf", 0))
            if ctx == "subscript" and not (0 <= wrap_eval(e, {0: a}) < 8):
                ctx = "exitarg"
            groups.append(make_group(e, [a], ctx, rnd, False, "neg"))
    for a in (0, 1):
        for ctx in CONTEXTS:
            groups.append(make_group(("un", "~", ("leaf", 0)), [a], ctx, rnd, True, "not"))
    # (b) random trees
    ntrees = 6000 if tier == "quick" else 250000
    for t in range(ntrees):
        boolean = rnd.random() < 0.4
        counter = [0]
        e = random_tree(rnd, rnd.choice([2, 3, 3, 4, 5]), boolean, counter)
        kinds = counter[1:]
        if not kinds or len(kinds) > 10:
            continue
        vs = []
        for isb in kinds:
            if isb:
                vs.append(rnd.choice([0, 1]))
            elif rnd.random() < 0.7:
                vs.append(rnd.choice(vals))
            else:
                vs.append(rnd.randrange(-70000, 70000))
        ctx = rnd.choice(CONTEXTS)
        if ctx == "subscript":
            w = wrap_eval(e, {i: v for i, v in enumerate(vs)})
            if not (0 <= w < 8):
                ctx = "assign"
        eff = rnd.randrange(len(vs)) if rnd.random() < 0.3 else None     # at most one call: the order of two would be open
        groups.append(make_group(e, vs, ctx, rnd, boolean, "tree", eff))
    return groups


def run(tier, replay=None):
    v = Verdict("C07", tier)
    exe = build()
    if replay:
        case = json.load(open(replay))["case"]
        cases = [(m, {"src": s, "input": b"", "maxcycles": 50000}) for m, s in case["sources"].items()]
        res = common.run_harness(exe, cases, args=["cases"])
        outs = {m: outcome(res[m]) for m in case["sources"]}
        print(outs)
        vals = list(outs.values())
        return 0 if all(o == vals[0] for o in vals) and vals[0][0] == "exit" else 1
    rnd = random.Random(common.seed() * 131 + 7)
    groups = groups_for(tier, rnd)
    W = common.NCPU * 4
    k = (len(groups) + W - 1) // W
    jobs = [(groups[i:i + k], exe) for i in range(0, len(groups), k)]
    outs = common.pmap(worker, jobs)
    for o in outs:
        v.cov["evaluations"] += o["pairs"]
        v.cov["distinct_nontrivial"] += o["distinct"]
        for k2, n in o["ops"].items():
            v.hist("expressions_by_operator", k2, n)
        for k2, n in o["ctx"].items():
            v.hist("expressions_by_context", k2, n)
        if o["sample"]:
            v.sample(o["sample"], limit=5)
        for code, rep in o["viol"]:
            v.violation(code, rep)
    v.cov["operand_value_set_size"] = 61
    v.cov["rule"] = ("one evaluation = one pair of variants (constant vs run-time supplied leaves) of the same expression compared on "
                     "hexsim; distinct_nontrivial = distinct (expression, leaf values, context) groups")
    v.assumptions = ["equality of the variants is the oracle; and/or/~ only over 0/1 operands as the property's quantifier says"]
    return v.finish(min_evaluations=1000)
