"""C17: listings agree with the binary they describe.

Each line of the listing (hexasm --instrs / xcmp -S format) is checked against
the bytes of the image written for the same source: the chain at the listed
offset must decode to the listed mnemonic, length and operand value."""
import glob
import json
import os
import random
import subprocess

from lib import asmgen, asmsrc, common
from lib.common import Verdict


def build():
    exe = common.build_cxx("h_asm", ["h_asm.cpp", "repo:hex.cpp"])
    common.build_cli()
    try:
        from checks import c01
        c01.build()
    except ImportError:
        pass
    return exe


def judge(listing, blob):
    errs, stats = asmsrc.check_listing(listing, blob)
    return errs, stats


def worker(job):
    wseed, n, exe = job
    rnd = random.Random(wseed)
    progs, cases = [], []
    for i in range(n):
        sub = rnd.randrange(1 << 62)
        dirs, meta = asmgen.generate(random.Random(sub), big=False)
        meta["subseed"] = sub
        progs.append((dirs, meta))
        cases.append((i, {"src": asmsrc.render(dirs)}))
    res = common.run_harness_single(exe, cases, args=["cases"], tag="c17")
    out = {"n": n, "checked": 0, "viol": [], "stats": {}, "sample": None, "distinct": set()}
    for i, (dirs, meta) in enumerate(progs):
        r = res[str(i)]
        if r["status"] != "ok" or not r["out"] or not r["out"]["ok"]:
            continue   # rejections and crashes belong to C05/C10
        o = r["out"]
        blob = common.unhex(o["file"])
        errs, stats = judge(o["listing"], blob)
        out["checked"] += 1
        out["distinct"].add(hash(o["listing"]))
        for k, x in stats.items():
            out["stats"][k] = out["stats"].get(k, 0) + x
        if out["sample"] is None and 3 < len(dirs) < 12:
            out["sample"] = {"listing": o["listing"], "file_hex": o["file"]}
        if errs:
            out["viol"].append((errs[0][0], {"why": errs[0][1], "all": [e[1] for e in errs[:5]], "meta": meta,
                                             "source": asmsrc.render(dirs) if len(dirs) < 300 else "(regenerate)"}))
    out["distinct"] = len(out["distinct"])
    return out


def cli_sample(v, nprog, rnd):
    """Listing and binary from separate runs of the real hexasm executable."""
    cli = common.build_cli()
    hexasm = os.path.join(cli, "hexasm")
    d = common.scratch("c17cli")
    srcs = sorted(glob.glob(os.path.join(common.REPO, "tests", "asm", "*.S")))
    texts = [(os.path.basename(f), open(f).read()) for f in srcs]
    for i in range(nprog):
        dirs, meta = asmgen.generate(random.Random(rnd.randrange(1 << 62)))
        texts.append(("gen%d" % i, asmsrc.render(dirs)))
    for name, text in texts:
        src = os.path.join(d, "p.S")
        open(src, "w").write(text)
        binf = os.path.join(d, "p.bin")
        if os.path.exists(binf):
            os.unlink(binf)
        p1 = subprocess.run([hexasm, src, "--instrs"], cwd=d, stdout=subprocess.PIPE, stderr=subprocess.PIPE, timeout=120)
        p2 = subprocess.run([hexasm, src, "-o", binf], cwd=d, stdout=subprocess.PIPE, stderr=subprocess.PIPE, timeout=120)
        if p2.stderr or not os.path.exists(binf):
            v.count("cli_rejected")
            continue
        errs, stats = judge(p1.stdout.decode("latin-1"), open(binf, "rb").read())
        v.count("cli_listings_checked")
        v.count("listing_lines_instr", stats["instr"])
        v.count("listing_lines_data", stats["data"])
        if errs:
            v.violation("cli:" + errs[0][0], {"why": errs[0][1], "name": name, "source": text[:4000]})


def cli_sample_x(v, nprog, rnd):
    """xcmp -S listing and xcmp -o binary from separate runs of the real executable."""
    from lib import xgen, xref
    cli = common.build_cli()
    xcmp = os.path.join(cli, "xcmp")
    d = common.scratch("c17clix")
    texts = [(os.path.basename(f), open(f, encoding="latin-1").read()) for f in sorted(glob.glob(os.path.join(common.REPO, "tests", "x", "*.x")))]
    for i in range(nprog):
        prog, console, files = xgen.random_program(random.Random(rnd.randrange(1 << 62)))
        texts.append(("xgen%d" % i, xref.render_program(prog)))
    for name, text in texts:
        src = os.path.join(d, "p.x")
        open(src, "w", encoding="latin-1").write(text)
        binf = os.path.join(d, "p.bin")
        if os.path.exists(binf):
            os.unlink(binf)
        p1 = subprocess.run([xcmp, src, "-S"], cwd=d, stdout=subprocess.PIPE, stderr=subprocess.PIPE, timeout=120)
        p2 = subprocess.run([xcmp, src, "-o", binf], cwd=d, stdout=subprocess.PIPE, stderr=subprocess.PIPE, timeout=120)
        if p2.returncode != 0 or not os.path.exists(binf):
            v.count("cli_x_rejected")
            continue
        errs, stats = judge(p1.stdout.decode("latin-1"), open(binf, "rb").read())
        v.count("cli_x_listings_checked")
        v.cov["evaluations"] += 1
        v.count("listing_lines_instr", stats["instr"])
        v.count("listing_lines_data", stats["data"])
        if errs:
            v.violation("cli-x:" + errs[0][0], {"why": errs[0][1], "name": name, "source": text[:4000]})


def x_part(v, tier):
    try:
        from checks import c01
    except ImportError:
        return
    c01.listing_part(v, tier)


def run(tier, replay=None):
    v = Verdict("C17", tier)
    exe = build()
    if replay:
        case = json.load(open(replay))["case"]
        if "meta" in case:
            dirs, meta = asmgen.generate(random.Random(case["meta"]["subseed"]))
            res = common.run_harness(exe, [(0, {"src": asmsrc.render(dirs)})], args=["cases"])
            o = res["0"]["out"]
            errs, _ = judge(o["listing"], common.unhex(o["file"]))
            print(errs)
            return 1 if errs else 0
        print("replay of this case kind: re-run the check with the same VERIF_SEED")
        return 2
    rnd = random.Random(common.seed() + 17)
    total = 20000 if tier == "quick" else 600000
    W = common.NCPU * (1 if tier == "quick" else 8)
    jobs = [(common.seed() * 7919 + 31 * w, total // W + 1, exe) for w in range(W)]
    outs = common.pmap(worker, jobs)
    for o in outs:
        v.cov["evaluations"] += o["checked"]
        v.cov["distinct_nontrivial"] += o["distinct"]
        v.count("programs_generated", o["n"])
        for k, x in o["stats"].items():
            v.count({"instr": "listing_lines_instr", "data": "listing_lines_data", "label_operand": "listing_lines_label_operand",
                     "labels": "listing_lines_label", "covered": "image_bytes_covered_by_listed_items",
                     "gap": "image_bytes_alignment_gaps"}[k], x)
        if o["sample"]:
            v.sample(o["sample"], limit=3)
        for code, rep in o["viol"]:
            v.violation(code, rep)
    cli_sample(v, 40 if tier == "quick" else 600, rnd)
    cli_sample_x(v, 40 if tier == "quick" else 600, rnd)
    x_part(v, tier)
    v.cov["rule"] = ("one evaluation = one accepted program whose listing was checked line by line against the image; "
                     "distinct by listing text (per worker); every program has at least one instruction or DATA line")
    v.assumptions = ["the listing format is `<offset> <text> (<n> bytes)` as printed by emitProgramText; label lines and the "
                     "PADDING line carry no encoding and are not checked; the `N bytes` total is not part of the property"]
    return v.finish(min_evaluations=1000)
