"""E4 (byte strings for C09/C10): hostile source texts for xcmp and hexasm."""
import random
import re

from lib import asmgen, asmsrc, xgen, xref

X_TOKENS = ["and", "array", "do", "else", "false", "func", "if", "is", "or", "proc", "return", "skip", "stop", "then", "true",
            "val", "var", "while", "[", "]", "(", ")", "{", "}", ";", ",", "+", "-", "=", "~=", "<", "<=", ">", ">=", "~", ":=",
            "main", "x", "y", "f", "g", "a", "0", "1", "2", "3", "255", "65536", "2147483647", "2147483648", "4294967295",
            "99999999999999999999", "#FF", "#", "#FFFFFFFFF", "#zz", "'a'", "'\\n'", "''", "'", "\"s\"", "\"\"", "\"", "|c\n", "|",
            "\\", ":", "@", "\x00", "\xff", "\x80"]
ASM_TOKENS = ["LDAM", "LDBM", "STAM", "LDAC", "LDBC", "LDAP", "LDAI", "LDBI", "STAI", "BR", "BRZ", "BRN", "OPR", "BRB", "ADD", "SUB",
              "SVC", "DATA", "FUNC", "PROC", "lab", "x", "start", "_a", "a_b", "0", "1", "15", "16", "-", "-1", "4294967296",
              "18446744073709551616", "99999999999999999999999", "#c\n", "#", "\n", " ", "\t", "(", "\x00", "\xff", "\x80", "PFIX", "NFIX"]


def tokens_of(text):
    return re.findall(r"\s+|[A-Za-z_][A-Za-z0-9_]*|[0-9]+|\"(?:\\.|[^\"\\])*\"|'(?:\\.|[^\\])'|<=|>=|~=|:=|.", text, re.S)


def mutate(text, rnd, vocab, other=None):
    toks = tokens_of(text)
    if not toks:
        return rnd.choice(vocab)
    n = rnd.choice([1, 1, 1, 2, 3, 6])
    for _ in range(n):
        if not toks:
            break
        k = rnd.randrange(len(toks))
        op = rnd.random()
        if op < 0.22:
            del toks[k]
        elif op < 0.4:
            toks.insert(k, toks[k])
        elif op < 0.55:
            j = rnd.randrange(len(toks))
            toks[k], toks[j] = toks[j], toks[k]
        elif op < 0.8:
            toks[k] = rnd.choice(vocab)
        elif op < 0.9:
            toks.insert(k, rnd.choice(vocab))
        elif op < 0.95:
            toks = toks[:k]                     # truncate at a token boundary
        elif other:
            o = tokens_of(other)
            j = rnd.randrange(len(o) + 1)
            toks = toks[:k] + o[j:]              # splice two programs
    return "".join(toks)


def odd_x_forms():
    return list(_ODD_X)


def odd_x(rnd):
    """Grammar-valid but semantically unusual X programs."""
    forms = _ODD_X
    s = rnd.choice(forms)
    if rnd.random() < 0.3:
        s = s.replace("1", rnd.choice(["2147483648", "4294967295", "#FFFFFFFF", "'z'", "(1)", "true", "\"\"", "f", "65536"]))
    return s


_ODD_X = [
        "proc main() is undefined_proc(1)",
        "proc main() is x := 1",
        "var x; var x; proc main() is x := 1",
        "proc f() is skip proc f() is skip proc main() is f()",
        "proc main() is main := 1",
        "func f(val a) is return a proc main() is f(1, 2)",
        "func f(val a) is return a proc main() is 0(f())",
        "array a[3]; proc main() is a := 1",
        "array a[3]; proc main() is 0(a)",
        "array a[3]; proc main() is 0(a + 1)",
        "var v; proc main() is v[0] := 1",
        "var v; proc main() is 0(v[1])",
        "val c = 3; proc main() is c := 4",
        "val c = 3; proc main() is c(1)",
        "proc main() is 0(main())",
        "proc main() is 0(\"str\" + 1)",
        "proc main() is 0(\"str\")",
        "proc p(proc q) is q() proc main() is p(main)",
        "func p(func q) is return q(1) func id(val x) is return x proc main() is 0(p(id))",
        "proc main() is { }",
        "proc main() is return 1",
        "func f() is skip proc main() is 0(f())",
        "proc main() is val v = main; skip",
        "array a[0]; proc main() is skip",
        "array a[-1]; proc main() is skip",
        "array a[2147483647]; proc main() is a[0] := 1",
        "array a[100000]; array b[100000]; array c[100000]; proc main() is c[0] := 1",
        "val v = 2147483647 + 1; proc main() is 0(v)",
        "val v = -2147483648; val w = -v; val z = v - 1; proc main() is 0(w + z)",
        "val v = (1 = 1) + (2 < 1) - (~0); proc main() is 0(v)",
        "proc main() is 0(~5)",
        "proc main() is 0(-(-(-1)))",
        "proc main() is 99(1)",
        "val s = 7; proc main() is s(1)",
        "proc main() is 2()",
        "proc main() is 1(1)",
        "proc main() is 1(1, 2, 3, 4, 5)",
        "proc main(val a) is skip",
        "func main() is return 0",
        "proc notmain() is skip",
        "",
        "var x;",
        "proc main() is skip junk",
        "proc main() is skip junk more",
        "proc main() is if 1 then skip else if 0 then skip else skip",
        "proc main() is while false do stop",
        "proc a(val a) is a(a) proc main() is a(1)",
        "proc main() is var main; main := 1",
        "proc main(val x, val x) is skip",
        "proc p(array x) is x := x proc main() is skip",
        "proc p(array x) is x[0] := x proc main() is p(\"abc\")",
        "proc main() is var x; x := 1 proc main() is var x; x := 2",
        "func f(val a) is var t; { t := a; return t } func f(val a) is var t; { t := a; return t + 1 } proc main() is 0(f(1))",
        "proc p(val a, val a) is var a; a := 1 proc main() is p(1, 2)",
        "var g; array g[3]; val g = 2; proc main() is g := 1",
        "proc main() is val c = 5; var x; x := c[1]",
        "proc main() is val c = 5; var i; { i := 0; c[i] := 1 }",
        "proc main() is val c = 5; c := 1",
        "proc p(array a) is a[0] := 1 proc main() is val c = 5; p(c)",
        "proc main() is var main; { main := 1; main() }",
        "proc main() is var x; x[0] := 1",
        "proc p(val v) is v[0] := 1 proc main() is p(3)",
        "proc p(val v) is v := 1 proc main() is p(3)",
        "proc main() is var x; var x; x := 1",
        "proc main() is main[0] := 1",
        "proc main() is var y; y := main",
        "proc main() is var y; y := main[1]",
]


KINDS = ["gval", "lval", "gvar", "lvar", "valformal", "arrayformal", "garray", "proc", "func", "procformal", "funcformal", "undeclared"]
USES = ["value", "sub_rhs", "sub_lhs", "assign", "callstmt", "callexpr", "array_actual", "val_actual", "syscall_name",
        "return_value", "condition", "array_length", "val_init", "sub_of_call", "nested_sub"]


def kind_matrix_program(kind, use):
    """A name of every declared kind put to every kind of use: most combinations are semantic errors or odd but legal."""
    g = ["val gv = 1;", "var gr;", "array ga[4];"]
    formals = {"valformal": "val n", "arrayformal": "array n", "procformal": "proc n", "funcformal": "func n"}
    decl_g, decl_l, formal = "", "", ""
    if kind == "gval":
        decl_g = "val n = 2;"
    elif kind == "gvar":
        decl_g = "var n;"
    elif kind == "garray":
        decl_g = "array n[3];"
    elif kind == "lval":
        decl_l = "val n = 2;"
    elif kind == "lvar":
        decl_l = "var n;"
    elif kind in formals:
        formal = formals[kind]
    elif kind == "proc":
        decl_g = ""
    uses = {
        "value": "t := n", "sub_rhs": "t := n[1]", "sub_lhs": "n[1] := 3", "assign": "n := 3", "callstmt": "n(1)",
        "callexpr": "t := n(1)", "array_actual": "takesarray(n)", "val_actual": "takesval(n)", "syscall_name": "n(65, 0)",
        "return_value": "t := retn()", "condition": "if n then skip else skip", "array_length": "skip", "val_init": "skip",
        "sub_of_call": "t := ga[n(1)]", "nested_sub": "ga[n[0]] := n[1]",
    }
    extra = ""
    if use == "array_length":
        extra = "array zz[n];"
    if use == "val_init":
        extra = "val zz = n;"
    procs = ["proc takesarray(array a) is a[0] := 1", "proc takesval(val v) is skip"]
    if kind == "proc":
        procs.append("proc n(val q) is skip")
    if kind == "func":
        procs.append("func n(val q) is return q")
    body = "{ t := 0; %s; 0(t) }" % uses[use]
    if use == "return_value":
        procs.append("func retn() is return 7")
    actual = {"valformal": "5", "arrayformal": "ga", "procformal": "takesval", "funcformal": "idf"}.get(kind)
    procs.append("func idf(val q) is return q")
    if formal:
        w = "proc w(%s) is %s var t; %s" % (formal, decl_l, body)
        main = "proc main() is w(%s)" % actual
    else:
        w = "proc w() is %s var t; %s" % (decl_l, body)
        main = "proc main() is w()"
    globs = " ".join(g) + " " + decl_g
    if extra and kind in ("gval", "gvar", "garray", "proc", "func", "undeclared"):
        globs += " " + extra
    elif extra:
        w = w.replace(" var t;", " %s var t;" % extra.replace("array zz[n];", "val zz2 = n;"), 1)
    return "%s\n%s\n%s\n%s\n" % (globs, "\n".join(procs), w, main)


def deep_x(rnd):
    n = rnd.choice([10, 50, 200, 600])
    kind = rnd.randrange(5)
    if kind == 0:
        return "proc main() is 0(" + "(" * n + "1" + ")" * n + ")"
    if kind == 1:
        return "proc main() is 0(" + "1 + " * n + "1)"
    if kind == 2:
        return "proc main() is " + "{ " * n + "skip" + " }" * n
    if kind == 3:
        return "proc main() is " + "if 1 then skip else " * n + "skip"
    return "func f(val x) is return x proc main() is 0(" + "f(" * n + "1" + ")" * n + ")"


def x_case(rnd, corpus):
    r = rnd.random()
    if r < 0.08:
        return "random-bytes", bytes(rnd.randrange(256) for _ in range(rnd.randrange(0, 200)))
    if r < 0.16:
        return "printable", "".join(rnd.choice(" \n\tabcxyz019(){}[];,:=+-<>~'\"|#") for _ in range(rnd.randrange(0, 300))).encode()
    if r < 0.26:
        return "token-soup", " ".join(rnd.choice(X_TOKENS) for _ in range(rnd.randrange(1, 60))).encode("latin-1")
    if r < 0.33:
        return "odd-semantics", odd_x(rnd).encode("latin-1")
    if r < 0.40:
        k, u = rnd.choice(KINDS), rnd.choice(USES)
        text = kind_matrix_program(k, u)
        if rnd.random() < 0.2:
            text = mutate(text, rnd, X_TOKENS)
        return "kind-matrix", text.encode("latin-1")
    if r < 0.46:
        return "deep-nesting", deep_x(rnd).encode()
    base = rnd.choice(corpus)
    other = rnd.choice(corpus)
    if r < 0.50:
        return "valid", base.encode("latin-1")
    return "mutated", mutate(base, rnd, X_TOKENS, other).encode("latin-1")[:4096]


def x_corpus(rnd, n, shipped):
    out = list(shipped)
    for _ in range(n):
        prog, console, files = xgen.random_program(random.Random(rnd.randrange(1 << 62)), size=0.5)
        out.append(xref.render_program(prog))
    return out


def odd_asm_forms():
    kws = ["LDAM", "LDBM", "STAM", "LDAC", "LDBC", "LDAP", "LDAI", "LDBI", "STAI", "BR", "BRZ", "BRN", "OPR", "DATA", "FUNC", "PROC",
           "BRB", "ADD", "SUB", "SVC"]
    extra = []
    for k in kws:
        extra.append("LDAC 1\nLDAC 2\nOPR %s\nLDAC 3\n" % k)          # an OPR operand of every keyword, after code that assembles
        extra.append("x\nDATA 1\n%s %s\n" % (k, k))
        extra.append("FUNC %s\nLDAC 1\nBR %s\n" % (k, k))
    return list(_ODD_ASM) + extra


def odd_asm(rnd):
    return rnd.choice(_ODD_ASM)


_ODD_ASM = [
        "", "# c", "   \n\t\n", "lab", "lab lab", "lab\nlab\nBR lab", "BR lab", "LDAM lab\nLDAC 1\nlab\nDATA 1", "LDAC", "LDAC -", "LDAC - 5",
        "LDAC -0", "DATA", "DATA -", "DATA 99999999999999999999", "OPR", "OPR LDAC", "OPR 3", "OPR lab", "FUNC", "PROC", "FUNC f\nFUNC f\nBR f",
        "PROC 7", "FUNC LDAC", "LDAC LDAC", "BR BR", "ADD", "SVC\nBRB", "LDAC 1 2 3", "LDAC 4294967295", "LDAC 4294967296", "LDAC -4294967295",
        "LDAC 18446744073709551615", "BR -2147483648", "LDAM 2147483648", "PFIX 1", "NFIX 2", "x_1\ny__\nBR x_1\nBRZ y__", "A\nDATA 1\nLDAM A",
        "LDAC 1\nx\nLDAM x", "x\nLDAC 1\nLDAM x", "BR f\nLDAC 1", "LDAP",
        "a\nBR b\nb\nBR a\n" * 3, "DATA 1\nDATA 2\nDATA 3", "OPR SVC OPR ADD", "start\nLDAC start\nLDBC start\nSTAM start",
]


def ring_asm(rnd):
    """Oscillation candidates: rings of forward/backward references at boundary distances with DATA between them."""
    n = rnd.randrange(2, 12)
    b = rnd.choice([16, 256, 4096])
    out = []
    for i in range(n):
        out.append("r%d" % i)
        out.append("%s r%d" % (rnd.choice(asmsrc.RELATIVE), (i + rnd.choice([1, 2, n - 1])) % n))
        if rnd.random() < 0.4:
            out.append("DATA %d" % rnd.randrange(100))
        pad = max(0, (b // n) + rnd.randrange(-3, 4))
        out += ["OPR ADD"] * pad
    return "\n".join(out) + "\n"


def asm_case(rnd, corpus):
    r = rnd.random()
    if r < 0.08:
        return "random-bytes", bytes(rnd.randrange(256) for _ in range(rnd.randrange(0, 200)))
    if r < 0.16:
        return "printable", "".join(rnd.choice(" \n\tABCDLMRXZabc019_-#") for _ in range(rnd.randrange(0, 300))).encode()
    if r < 0.28:
        return "token-soup", " ".join(rnd.choice(ASM_TOKENS) for _ in range(rnd.randrange(1, 60))).encode("latin-1")
    if r < 0.42:
        return "odd", odd_asm(rnd).encode()
    if r < 0.50:
        return "ring", ring_asm(rnd).encode()
    base = rnd.choice(corpus)
    if r < 0.55:
        return "valid", base.encode()
    return "mutated", mutate(base, rnd, ASM_TOKENS, rnd.choice(corpus)).encode("latin-1")[:4096]


def asm_corpus(rnd, n, shipped):
    out = list(shipped)
    for _ in range(n):
        dirs, meta = asmgen.generate(random.Random(rnd.randrange(1 << 62)))
        if len(dirs) < 150:
            out.append(asmsrc.render(dirs))
    return out
