"""Shared driver for the X-program checks (C01, C07, C08, C15, C17-X, C02d):
generate -> reference interpreter -> harness -> comparison records."""
import random

from lib import common, xgen, xref


def build():
    return common.build_cxx("h_x", ["h_x.cpp", "repo:hex.cpp"])


def dest_of(stream):
    s = stream - (1 << 32) if stream & 0x80000000 else stream
    return "console" if s < 256 else "file%d" % ((s >> 8) & 7)


def src_of(stream):
    s = stream - (1 << 32) if stream & 0x80000000 else stream
    return "stdin" if s < 256 else "file%d" % ((s >> 8) & 7)


def signed(v):
    return v - (1 << 32) if v & 0x80000000 else v


def compare(ref, o):
    """ref: defined reference result; o: harness 'out' dict (compiled ok).
    -> list of (code, text) divergences (empty = behaviour preserved)"""
    errs = []
    if o["ended"] != "exit":
        errs.append(("no-exit:" + o["ended"].split(":")[0],
                     "binary ended with %s after %d instructions; reference exits with %d" % (o["ended"], o["cycles"], ref["exit"])))
        return errs
    outs, ins = {}, {}
    for e in ref["events"]:
        if e[0] == "out":
            outs.setdefault(e[1], []).append(e[2])
        else:
            ins.setdefault(e[1], []).append(e[2])
    bouts, bins = {}, {}
    bexit = None
    for e in o["events"]:
        if e["n"] == 1:
            bouts.setdefault(dest_of(e["a1"]), []).append(e["a0"] & 0xFF)
        elif e["n"] == 2:
            bins.setdefault(src_of(e["a0"]), []).append(e["r"])
        else:
            bexit = signed(e["a0"])
    if outs != bouts:
        for d in sorted(set(outs) | set(bouts)):
            if outs.get(d) != bouts.get(d):
                errs.append(("output", "stream %s: reference writes %r, binary writes %r" % (d, bytes(outs.get(d, []))[:60], bytes(bouts.get(d, []))[:60])))
                break
    if ins != bins:
        errs.append(("input", "reference reads %r, binary reads %r" % ({k: len(v) for k, v in ins.items()}, {k: len(v) for k, v in bins.items()})))
    if bexit != ref["exit"] or signed(o["run_return"] & 0xFFFFFFFF) != ref["exit"]:
        errs.append(("exit-value", "reference exits with %d, binary with %s (run() returned %d)" % (ref["exit"], bexit, o["run_return"])))
    # the bytes that really reached the console / files, and the input position
    if bytes.fromhex(o["console"]) != bytes(outs.get("console", [])):
        errs.append(("console-bytes", "console shows %r" % bytes.fromhex(o["console"])[:60]))
    for f in o["files"]:
        want = bytes(outs.get("file%d" % f["k"], []))
        if bytes.fromhex(f["data"]) != want:
            errs.append(("file-bytes", "simout%d holds %r, reference %r" % (f["k"], bytes.fromhex(f["data"])[:40], want[:40])))
    if o["consumed"] != len(ins.get("stdin", [])) and not (len(ins.get("stdin", [])) > o["consumed"]):
        errs.append(("consumed", "binary consumed %d input bytes, reference %d" % (o["consumed"], len(ins.get("stdin", [])))))
    return errs


def features_of(src):
    f = set()
    if '""' in src:
        f.add("empty-string")
    return f


def evaluate(items, exe, want="", max_steps=200000, budget_mult=100):
    """items: list of (tag, program AST, console bytes, files dict).
    -> list of records {tag, src, console, files, ref, res (harness record or None)}"""
    recs = []
    cases = []
    for i, (tag, prog, console, files) in enumerate(items):
        src = xref.render_program(prog)
        ref = xref.Interp(prog, console, files, max_steps=max_steps).run()
        rec = {"tag": tag, "src": src, "console": console, "files": files, "ref": ref, "res": None}
        recs.append(rec)
        if ref["status"] == "defined":
            fields = {"src": src, "input": console, "maxcycles": budget_mult * ref["steps"] + 10000, "want": want}
            for k, data in files.items():
                fields["fin%d" % k] = data
            cases.append((i, fields))
    if cases:
        res = common.run_harness_single(exe, cases, args=["cases"], tag="x")
        for i, _ in cases:
            recs[i]["res"] = res[str(i)]
    return recs


def replay_record(rec):
    return {"tag": rec["tag"], "source": rec["src"], "input_hex": rec["console"].hex(),
            "files": {str(k): v.hex() for k, v in rec["files"].items()},
            "reference": {"exit": rec["ref"].get("exit"),
                          "events": [list(e) for e in rec["ref"].get("events", [])[:200]]}}
