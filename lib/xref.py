"""E3: reference semantics for X — an independent parser for the grammar xcmp
accepts and a definitional interpreter that also acts as the well-definedness
monitor of C01's quantifier.

AST (plain tuples):
  expr:  ("num", v) ("bool", b) ("str", bytes) ("var", name) ("sub", name, e)
         ("call", name, [e]) ("sys", id, [e]) ("un", op, e) ("bin", op, l, r)
  stmt:  ("skip",) ("stop",) ("ret", e) ("if", c, t, f) ("while", c, s) ("seq", [s])
         ("ass", lhs, e)   lhs = ("var", n) | ("sub", n, e)
         ("callst", name, [e]) ("sysst", id, [e])
  decl:  ("val", name, e) ("var", name) ("array", name, e)
  proc:  {"kind": "proc"|"func", "name", "formals": [(kind, name)], "locals": [decl], "body": stmt}
  program: {"globals": [decl], "procs": [proc]}
"""
import re

INT_MIN = -(1 << 31)
INT_MAX = (1 << 31) - 1
KEYWORDS = {"and", "array", "do", "else", "false", "func", "if", "is", "or", "proc", "return", "skip",
            "stop", "then", "true", "val", "var", "while"}
BINOPS = {"+", "-", "or", "and", "=", "~=", "<", "<=", ">", ">="}
ASSOC = {"+", "and", "or"}


class IllDefined(Exception):
    def __init__(self, reason):
        Exception.__init__(self, reason)
        self.reason = reason


class ParseError(Exception):
    pass


class _Exit(Exception):
    def __init__(self, value):
        self.value = value


class _Return(Exception):
    def __init__(self, value):
        self.value = value


# --------------------------------------------------------------------------
# rendering
# --------------------------------------------------------------------------
def _esc_str(b):
    out = []
    for c in b:
        ch = chr(c)
        if ch == "\\":
            out.append("\\\\")
        elif ch == '"':
            out.append('\\"')
        elif ch == "'":
            out.append("\\'")
        elif ch == "\t":
            out.append("\\t")
        elif ch == "\r":
            out.append("\\r")
        elif ch == "\n":
            out.append("\\n")
        else:
            out.append(ch)
    return "".join(out)


def render_elem(e):
    k = e[0]
    if k == "num":
        v = e[1]
        if v < 0:
            return "(-%d)" % (-v)
        return "%d" % v
    if k == "hex":
        return "#%X" % e[1]
    if k == "chr":
        return "'%s'" % _esc_str(bytes([e[1]]))
    if k == "bool":
        return "true" if e[1] else "false"
    if k == "str":
        return '"%s"' % _esc_str(e[1])
    if k == "var":
        return e[1]
    if k == "sub":
        return "%s[%s]" % (e[1], render_expr(e[2]))
    if k == "call":
        return "%s(%s)" % (e[1], ", ".join(render_expr(a) for a in e[2]))
    if k == "sys":
        return "%d(%s)" % (e[1], ", ".join(render_expr(a) for a in e[2]))
    return "(" + render_expr(e) + ")"


def render_expr(e):
    k = e[0]
    if k == "un":
        return "%s%s" % (e[1], render_elem(e[2]))
    if k == "bin":
        op = e[1]
        s = render_elem(e[2]) + " " + op + " "
        r = e[3]
        while op in ASSOC and r[0] == "bin" and r[1] == op:
            s += render_elem(r[2]) + " " + op + " "
            r = r[3]
        return s + render_elem(r)
    if k == "num" and e[1] < 0:
        return "-%d" % (-e[1])
    return render_elem(e)


def render_stmt(s, ind=1):
    pad = "  " * ind
    k = s[0]
    if k == "skip":
        return pad + "skip"
    if k == "stop":
        return pad + "stop"
    if k == "ret":
        return pad + "return " + render_expr(s[1])
    if k == "if":
        return "%sif %s then\n%s\n%selse\n%s" % (pad, render_expr(s[1]), render_stmt(s[2], ind + 1), pad, render_stmt(s[3], ind + 1))
    if k == "while":
        return "%swhile %s do\n%s" % (pad, render_expr(s[1]), render_stmt(s[2], ind + 1))
    if k == "seq":
        return pad + "{\n" + ";\n".join(render_stmt(x, ind + 1) for x in s[1]) + "\n" + pad + "}"
    if k == "ass":
        return "%s%s := %s" % (pad, render_elem(s[1]), render_expr(s[2]))
    if k == "callst":
        return "%s%s(%s)" % (pad, s[1], ", ".join(render_expr(a) for a in s[2]))
    if k == "sysst":
        return "%s%d(%s)" % (pad, s[1], ", ".join(render_expr(a) for a in s[2]))
    raise ValueError(k)


def render_decl(d):
    if d[0] == "val":
        return "val %s = %s;" % (d[1], render_expr(d[2]))
    if d[0] == "var":
        return "var %s;" % d[1]
    return "array %s[%s];" % (d[1], render_expr(d[2]))


def render_program(p):
    out = [render_decl(d) for d in p["globals"]]
    for pr in p["procs"]:
        out.append("%s %s(%s) is" % (pr["kind"], pr["name"], ", ".join("%s %s" % f for f in pr["formals"])))
        for d in pr["locals"]:
            out.append("  " + render_decl(d))
        out.append(render_stmt(pr["body"], 1))
    return "\n".join(out) + "\n"


# --------------------------------------------------------------------------
# parser (independent of xcmp's; accepts the same concrete syntax)
# --------------------------------------------------------------------------
_TOKRE = re.compile(r"""
   (?P<ws>[ \t\r\n\f\v]+)
 | (?P<comment>\|[^\n]*)
 | (?P<id>[A-Za-z][A-Za-z0-9_]*)
 | (?P<num>[0-9]+)
 | (?P<hex>\#[0-9A-Za-z]*)
 | (?P<chr>'(?:\\.|[^\\])')
 | (?P<str>"(?:\\.|[^"\\])*")
 | (?P<op><=|>=|~=|:=|[\[\](){};,+\-=<>~])
""", re.X | re.S)
_ESC = {"\\": 0x5C, "'": 0x27, '"': 0x22, "t": 9, "r": 13, "n": 10}


def _unescape(body):
    out = bytearray()
    i = 0
    while i < len(body):
        c = body[i]
        if c == "\\":
            i += 1
            if body[i] not in _ESC:
                raise ParseError("bad escape")
            out.append(_ESC[body[i]])
        else:
            out.append(ord(c) & 0xFF)
        i += 1
    return bytes(out)


def tokenize(text):
    toks = []
    pos = 0
    while pos < len(text):
        m = _TOKRE.match(text, pos)
        if not m:
            raise ParseError("unexpected character %r at %d" % (text[pos], pos))
        pos = m.end()
        k = m.lastgroup
        if k in ("ws", "comment"):
            continue
        v = m.group(k)
        if k == "id":
            toks.append(("kw", v) if v in KEYWORDS else ("id", v))
        elif k == "num":
            toks.append(("num", int(v) & 0xFFFFFFFF))
        elif k == "hex":
            toks.append(("num", int(v[1:] or "0", 16) & 0xFFFFFFFF))
        elif k == "chr":
            toks.append(("num", _unescape(v[1:-1])[0]))
        elif k == "str":
            toks.append(("str", _unescape(v[1:-1])))
        else:
            toks.append(("op", v))
    toks.append(("eof", None))
    return toks


class Parser:
    def __init__(self, text):
        self.t = tokenize(text)
        self.i = 0

    def peek(self):
        return self.t[self.i]

    def next(self):
        t = self.t[self.i]
        self.i += 1
        return t

    def accept(self, kind, val=None):
        t = self.t[self.i]
        if t[0] == kind and (val is None or t[1] == val):
            self.i += 1
            return True
        return False

    def expect(self, kind, val=None):
        if not self.accept(kind, val):
            raise ParseError("expected %s %s, got %r" % (kind, val, self.t[self.i]))

    def ident(self):
        t = self.next()
        if t[0] != "id":
            raise ParseError("expected name, got %r" % (t,))
        return t[1]

    def binop(self):
        t = self.peek()
        if t[0] == "op" and t[1] in ("+", "-", "=", "~=", "<", "<=", ">", ">="):
            return t[1]
        if t[0] == "kw" and t[1] in ("and", "or"):
            return t[1]
        return None

    def expr(self):
        if self.accept("op", "-"):
            return ("un", "-", self.element())
        if self.accept("op", "~"):
            return ("un", "~", self.element())
        e = self.element()
        op = self.binop()
        if op:
            self.next()
            return ("bin", op, e, self.binrhs(op))
        return e

    def binrhs(self, op):
        e = self.element()
        if op in ASSOC and self.binop() == op:
            self.next()
            return ("bin", op, e, self.binrhs(op))
        return e

    def exprlist(self):
        out = [self.expr()]
        while self.accept("op", ","):
            out.append(self.expr())
        return out

    def args(self):
        self.expect("op", "(")
        if self.accept("op", ")"):
            return []
        a = self.exprlist()
        self.expect("op", ")")
        return a

    def element(self):
        t = self.next()
        if t[0] == "id":
            p = self.peek()
            if p == ("op", "["):
                self.next()
                e = self.expr()
                self.expect("op", "]")
                return ("sub", t[1], e)
            if p == ("op", "("):
                return ("call", t[1], self.args())
            return ("var", t[1])
        if t[0] == "num":
            if self.peek() == ("op", "("):
                return ("sys", t[1], self.args())
            return ("num", t[1])
        if t[0] == "str":
            return ("str", t[1])
        if t == ("kw", "true"):
            return ("bool", True)
        if t == ("kw", "false"):
            return ("bool", False)
        if t == ("op", "("):
            e = self.expr()
            self.expect("op", ")")
            return e
        raise ParseError("bad element %r" % (t,))

    def decl(self):
        t = self.next()
        if t == ("kw", "val"):
            n = self.ident()
            self.expect("op", "=")
            e = self.expr()
            self.expect("op", ";")
            return ("val", n, e)
        if t == ("kw", "var"):
            n = self.ident()
            self.expect("op", ";")
            return ("var", n)
        if t == ("kw", "array"):
            n = self.ident()
            self.expect("op", "[")
            e = self.expr()
            self.expect("op", "]")
            self.expect("op", ";")
            return ("array", n, e)
        raise ParseError("bad declaration")

    def stmt(self):
        t = self.peek()
        if t == ("kw", "skip"):
            self.next()
            return ("skip",)
        if t == ("kw", "stop"):
            self.next()
            return ("stop",)
        if t == ("kw", "return"):
            self.next()
            return ("ret", self.expr())
        if t == ("kw", "if"):
            self.next()
            c = self.expr()
            self.expect("kw", "then")
            a = self.stmt()
            self.expect("kw", "else")
            b = self.stmt()
            return ("if", c, a, b)
        if t == ("kw", "while"):
            self.next()
            c = self.expr()
            self.expect("kw", "do")
            return ("while", c, self.stmt())
        if t == ("op", "{"):
            self.next()
            ss = [self.stmt()]
            while self.accept("op", ";"):
                ss.append(self.stmt())
            self.expect("op", "}")
            return ("seq", ss)
        if t[0] == "id":
            e = self.element()
            if e[0] == "call":
                return ("callst", e[1], e[2])
            self.expect("op", ":=")
            return ("ass", e, self.expr())
        if t[0] == "num":
            e = self.element()
            if e[0] == "sys":
                return ("sysst", e[1], e[2])
        raise ParseError("bad statement at %r" % (t,))

    def program(self):
        globs = []
        while self.peek() in (("kw", "val"), ("kw", "var"), ("kw", "array")):
            globs.append(self.decl())
        procs = []
        while self.peek() in (("kw", "proc"), ("kw", "func")):
            kind = self.next()[1]
            name = self.ident()
            self.expect("op", "(")
            formals = []
            if not self.accept("op", ")"):
                while True:
                    ft = self.next()
                    if ft[0] != "kw" or ft[1] not in ("val", "array", "proc", "func"):
                        raise ParseError("bad formal")
                    formals.append((ft[1], self.ident()))
                    if not self.accept("op", ","):
                        break
                self.expect("op", ")")
            self.expect("kw", "is")
            locs = []
            while self.peek() in (("kw", "val"), ("kw", "var")):
                locs.append(self.decl())
            body = self.stmt()
            procs.append({"kind": kind, "name": name, "formals": formals, "locals": locs, "body": body})
        # xcmp skips one token here before demanding end of file
        if self.peek()[0] != "eof":
            self.next()
        if self.peek()[0] != "eof":
            raise ParseError("trailing tokens")
        return {"globals": globs, "procs": procs}


def parse(text):
    try:
        return Parser(text).program()
    except IndexError:
        raise ParseError("unexpected end of input")


# --------------------------------------------------------------------------
# interpreter
# --------------------------------------------------------------------------
class Array:
    __slots__ = ("name", "cells", "const")

    def __init__(self, name, cells, const=False):
        self.name = name
        self.cells = cells
        self.const = const


def pack_string(b):
    """xhexnotes: word 0 = length | c0<<8 | c1<<16 | c2<<24, then four chars per word; "" is one word 0."""
    data = bytes([len(b) & 0xFF]) + b
    words = []
    for i in range(0, len(data), 4):
        chunk = data[i:i + 4] + b"\0" * (4 - len(data[i:i + 4]))
        w = chunk[0] | chunk[1] << 8 | chunk[2] << 16 | chunk[3] << 24
        words.append(w - (1 << 32) if w > INT_MAX else w)
    return words


UNSET = None


class Interp:
    def __init__(self, program, console=b"", files=None, max_steps=200000, max_depth=200):
        self.p = program
        self.console = console
        self.conpos = 0
        self.files = files or {}
        self.filepos = {}
        self.max_steps = max_steps
        self.max_depth = max_depth
        self.steps = 0
        self.depth = 0
        self.maxdepth_seen = 0
        self.events = []          # ("out", dest, byte) | ("in", src, value)
        self.calls = []           # names in call order
        self.gvals = {}
        self.gvars = {}
        self.garrays = {}
        self.procs = {}
        self.eff = []             # stack of [reads, writes] for unordered operand groups
        self.open_groups = 0      # unordered groups with >1 call-containing operand currently being evaluated
        self.multi_call_groups = 0   # unordered groups with two or more call-containing operands that were evaluated
        self.out_dests = set()
        self.in_srcs = set()
        self.features = set()
        self.strings = {}

    # ---- static helpers
    def const_eval(self, e, vals):
        k = e[0]
        if k in ("num", "hex", "chr"):
            if e[1] > INT_MAX:
                raise IllDefined("literal-range")
            return e[1]
        if k == "bool":
            return 1 if e[1] else 0
        if k == "un" and e[1] == "-" and e[2] == ("num", 1 << 31):
            return INT_MIN
        if k == "var":
            if e[1] in vals:
                return vals[e[1]]
            raise IllDefined("val-not-constant")
        if k == "un":
            v = self.const_eval(e[2], vals)
            return self.unop(e[1], v)
        if k == "bin":
            a = self.const_eval(e[2], vals)
            if e[1] == "and":
                self.need_bool(a)
                if not a:
                    return 0
                b = self.const_eval(e[3], vals)
                self.need_bool(b)
                return b
            if e[1] == "or":
                self.need_bool(a)
                if a:
                    return 1
                b = self.const_eval(e[3], vals)
                self.need_bool(b)
                return b
            b = self.const_eval(e[3], vals)
            return self.binop(e[1], a, b)
        raise IllDefined("val-not-constant")

    @staticmethod
    def need_bool(v):
        if v not in (0, 1):
            raise IllDefined("non-boolean-operand")

    def unop(self, op, v):
        if not isinstance(v, int):
            raise IllDefined("array-in-arithmetic")
        if op == "-":
            if v == INT_MIN:
                raise IllDefined("overflow")
            return -v
        self.need_bool(v)
        return 1 - v

    def binop(self, op, a, b):
        if not isinstance(a, int) or not isinstance(b, int):
            raise IllDefined("array-in-arithmetic")
        if op == "+":
            r = a + b
            if r < INT_MIN or r > INT_MAX:
                raise IllDefined("overflow")
            return r
        if op == "-":
            r = a - b
            if r < INT_MIN or r > INT_MAX:
                raise IllDefined("overflow")
            return r
        if op == "=":
            return 1 if a == b else 0
        if op == "~=":
            return 1 if a != b else 0
        d = a - b
        if d < INT_MIN + 1 or d > INT_MAX:      # a-b or b-a would overflow
            raise IllDefined("compare-overflow")
        if op == "<":
            return 1 if a < b else 0
        if op == "<=":
            return 1 if a <= b else 0
        if op == ">":
            return 1 if a > b else 0
        if op == ">=":
            return 1 if a >= b else 0
        raise IllDefined("bad-operator")

    # ---- set-up
    def setup(self):
        seen = set()
        for d in self.p["globals"]:
            if d[1] in seen:
                raise IllDefined("redeclared-global")
            seen.add(d[1])
            if d[0] == "val":
                self.gvals[d[1]] = self.const_eval(d[2], self.gvals)
            elif d[0] == "var":
                self.gvars[d[1]] = UNSET
            else:
                n = self.const_eval(d[2], self.gvals)
                if n < 1 or n > 150000:
                    raise IllDefined("array-length")
                self.garrays[d[1]] = Array(d[1], [UNSET] * n)
        total = sum(len(a.cells) for a in self.garrays.values())
        if total > 150000:
            raise IllDefined("arrays-too-large")
        for pr in self.p["procs"]:
            if pr["name"] in self.procs or pr["name"] in seen:
                raise IllDefined("redeclared-proc")
            self.procs[pr["name"]] = pr
        # static rule (the compiler applies it whether or not the procedure is ever called): a local val must be a
        # constant expression over literals, global vals and earlier local vals; every formal and local var of the
        # procedure hides a global of the same name for the whole body
        for pr in self.p["procs"]:
            hidden = {fn for _, fn in pr["formals"]} | {d[1] for d in pr["locals"]}   # a later local val hides the global too
            consts = {k: v for k, v in self.gvals.items() if k not in hidden}
            for d in pr["locals"]:
                if d[0] == "val":
                    consts.pop(d[1], None)
                    consts[d[1]] = self.const_eval(d[2], consts)
        if "main" not in self.procs:
            raise IllDefined("no-main")
        m = self.procs["main"]
        if m["kind"] != "proc" or m["formals"]:
            raise IllDefined("main-shape")

    # ---- effects
    def note_read(self, key):
        for f in self.eff:
            f[0].add(key)

    def note_write(self, key):
        for f in self.eff:
            f[1].add(key)

    def group(self, operands, env, contains_call):
        """Evaluate sibling operands of an unordered group, checking that their
        read/write sets do not conflict.  Returns the list of values."""
        ncall = sum(1 for o in operands if contains_call(o))
        track = ncall >= 1 and len(operands) > 1
        if not track:
            return [self.eval(o, env) for o in operands]
        # an exit inside one operand is only order-sensitive if a sibling can have effects, i.e. has a call too
        multi = ncall > 1
        if multi:
            self.open_groups += 1
            self.multi_call_groups += 1
        vals = []
        sets = []
        try:
            for o in operands:
                f = [set(), set()]
                self.eff.append(f)
                try:
                    vals.append(self.eval(o, env))
                finally:
                    self.eff.pop()
                sets.append(f)
        finally:
            if multi:
                self.open_groups -= 1
        for i in range(len(sets)):
            for j in range(i + 1, len(sets)):
                a, b = sets[i], sets[j]
                if (a[1] & b[0]) or (a[1] & b[1]) or (b[1] & a[0]):
                    raise IllDefined("evaluation-order")
        return vals

    # ---- lookup
    def lookup(self, name, env):
        if name in env["vars"]:
            return ("local", None)
        if name in env["vals"]:
            return ("lval", env["vals"][name])
        if name in env["arrays"]:
            return ("larray", env["arrays"][name])
        if name in env["pf"]:
            return ("procformal", None)
        if name in self.gvals:
            return ("gval", self.gvals[name])
        if name in self.gvars:
            return ("gvar", None)
        if name in self.garrays:
            return ("garray", self.garrays[name])
        if name in self.procs:
            return ("proc", self.procs[name])
        raise IllDefined("unknown-name")

    @staticmethod
    def contains_call(e):
        k = e[0]
        if k in ("call", "sys"):
            return True
        if k == "sub":
            return Interp.contains_call(e[2])
        if k == "un":
            return Interp.contains_call(e[2])
        if k == "bin":
            return Interp.contains_call(e[2]) or Interp.contains_call(e[3])
        return False

    def tick(self):
        self.steps += 1
        if self.steps > self.max_steps:
            raise IllDefined("step-budget")

    # ---- expressions
    def eval(self, e, env):
        self.tick()
        k = e[0]
        if k in ("num", "hex", "chr"):
            if e[1] > INT_MAX:
                raise IllDefined("literal-range")
            return e[1]
        if k == "bool":
            return 1 if e[1] else 0
        if k == "un" and e[1] == "-" and e[2] == ("num", 1 << 31):
            return INT_MIN
        if k == "str":
            key = id(e)
            if key not in self.strings:
                self.strings[key] = Array("<string>", pack_string(e[1]), const=True)
                self.features.add("string-len-%d" % min(len(e[1]), 41))
            return self.strings[key]
        if k == "var":
            kind, x = self.lookup(e[1], env)
            if kind == "local":
                v = env["vars"][e[1]]
                if v is UNSET:
                    raise IllDefined("unassigned-read")
                return v
            if kind in ("lval", "gval"):
                return x
            if kind == "gvar":
                v = self.gvars[e[1]]
                if v is UNSET:
                    raise IllDefined("unassigned-read")
                self.note_read(("g", e[1]))
                return v
            if kind in ("larray", "garray"):
                return x
            raise IllDefined("name-kind")
        if k == "sub":
            kind, arr = self.lookup(e[1], env)
            if kind not in ("larray", "garray"):
                raise IllDefined("subscript-of-non-array")
            i = self.eval(e[2], env)
            if not isinstance(i, int):
                raise IllDefined("array-in-arithmetic")
            if i < 0 or i >= len(arr.cells):
                raise IllDefined("subscript-range")
            v = arr.cells[i]
            if v is UNSET:
                raise IllDefined("unassigned-read")
            self.note_read(("a", id(arr)))
            return v
        if k == "un":
            return self.unop(e[1], self.eval(e[2], env))
        if k == "bin":
            op = e[1]
            if op == "and":
                a = self.eval(e[2], env)
                if not isinstance(a, int):
                    raise IllDefined("array-in-arithmetic")
                self.need_bool(a)
                if not a:
                    return 0
                b = self.eval(e[3], env)
                if not isinstance(b, int):
                    raise IllDefined("array-in-arithmetic")
                self.need_bool(b)
                return b
            if op == "or":
                a = self.eval(e[2], env)
                if not isinstance(a, int):
                    raise IllDefined("array-in-arithmetic")
                self.need_bool(a)
                if a:
                    return 1
                b = self.eval(e[3], env)
                if not isinstance(b, int):
                    raise IllDefined("array-in-arithmetic")
                self.need_bool(b)
                return b
            a, b = self.group([e[2], e[3]], env, self.contains_call)
            return self.binop(op, a, b)
        if k == "sys":
            return self.syscall(e[1], e[2], env, True)
        if k == "call":
            return self.call(e[1], e[2], env, True)
        raise IllDefined("bad-expression")

    def syscall(self, num, args, env, as_expr):
        if num == 0:
            if len(args) != 1:
                raise IllDefined("syscall-arity")
            (v,) = self.group(args, env, self.contains_call)
            if not isinstance(v, int):
                raise IllDefined("array-in-arithmetic")
            if self.open_groups:
                raise IllDefined("exit-inside-unordered-group")
            raise _Exit(v)
        if num == 1:
            if len(args) != 2:
                raise IllDefined("syscall-arity")
            v, s = self.group(args, env, self.contains_call)
            if not isinstance(v, int) or not isinstance(s, int):
                raise IllDefined("array-in-arithmetic")
            if as_expr:
                raise IllDefined("value-of-write-call")
            dest = "console" if s < 256 else "file%d" % ((s >> 8) & 7)
            if dest in self.in_srcs:
                raise IllDefined("stream-index-both-ways")
            self.out_dests.add(dest)
            self.note_write(("io", dest))
            self.note_read(("world",))
            self.events.append(("out", dest, v & 0xFF))
            return 0
        if num == 2:
            if len(args) != 1:
                raise IllDefined("syscall-arity")
            (s,) = self.group(args, env, self.contains_call)
            if not isinstance(s, int):
                raise IllDefined("array-in-arithmetic")
            if s < 256:
                src = "stdin"
                if self.conpos < len(self.console):
                    v = self.console[self.conpos]
                    self.conpos += 1
                else:
                    v = 255
                    self.features.add("read-past-end")
            else:
                f = (s >> 8) & 7
                src = "file%d" % f
                if f not in self.files:
                    raise IllDefined("read-from-absent-file")
                pos = self.filepos.get(f, 0)
                if pos < len(self.files[f]):
                    v = self.files[f][pos]
                    self.filepos[f] = pos + 1
                else:
                    v = 255
            if src in self.out_dests:
                raise IllDefined("stream-index-both-ways")
            self.in_srcs.add(src)
            self.note_write(("io", src))
            self.note_read(("world",))
            self.events.append(("in", src, v))
            return v
        raise IllDefined("bad-syscall")

    def call(self, name, args, env, as_expr):
        kind, x = self.lookup(name, env)
        if kind in ("lval", "gval"):
            if kind == "lval":
                pass
            return self.syscall(x, args, env, as_expr)
        if kind != "proc":
            raise IllDefined("call-of-non-procedure")
        pr = x
        if as_expr and pr["kind"] != "func":
            raise IllDefined("procedure-in-expression")
        if not as_expr and pr["kind"] != "proc":
            raise IllDefined("function-as-statement")
        if len(args) != len(pr["formals"]):
            raise IllDefined("arity")
        vals = self.group(args, env, self.contains_call)
        new = {"vars": {}, "vals": {}, "arrays": {}, "pf": set(), "kind": pr["kind"], "formal_names": set()}
        for (fk, fn), v in zip(pr["formals"], vals):
            if fn in new["formal_names"]:
                raise IllDefined("duplicate-formal")
            new["formal_names"].add(fn)
            if fk == "val":
                if not isinstance(v, int):
                    raise IllDefined("array-for-val-formal")
                new["vals"][fn] = v
            elif fk == "array":
                if not isinstance(v, Array):
                    raise IllDefined("scalar-for-array-formal")
                new["arrays"][fn] = v
            else:
                raise IllDefined("proc-func-formal")
        for d in pr["locals"]:
            if d[1] in new["formal_names"] or d[1] in new["vars"] or (d[0] == "val" and d[1] in new["vals"] and d[1] not in new["formal_names"]):
                raise IllDefined("redeclared-local")
            if d[0] == "var":
                new["vars"][d[1]] = UNSET
            elif d[0] == "val":
                hidden = new["formal_names"] | {d2[1] for d2 in pr["locals"]}
                consts = {k2: v2 for k2, v2 in self.gvals.items() if k2 not in hidden}
                for n2, v2 in new["vals"].items():
                    if n2 not in new["formal_names"]:
                        consts[n2] = v2
                new["vals"][d[1]] = self.const_eval(d[2], consts)
            else:
                raise IllDefined("local-array")
        self.depth += 1
        self.maxdepth_seen = max(self.maxdepth_seen, self.depth)
        if self.depth > self.max_depth:
            raise IllDefined("depth-budget")
        self.calls.append(name)
        self.features.add("args-%d" % len(args))
        try:
            self.exec(pr["body"], new)
            if pr["kind"] == "func":
                raise IllDefined("function-without-return")
            result = 0
        except _Return as r:
            if pr["kind"] != "func":
                raise IllDefined("return-in-procedure")
            result = r.value
        finally:
            self.depth -= 1
        return result

    # ---- statements
    def exec(self, s, env):
        self.tick()
        k = s[0]
        if k == "skip":
            return
        if k == "stop":
            if self.open_groups:
                raise IllDefined("exit-inside-unordered-group")
            raise _Exit(0)
        if k == "ret":
            v = self.eval(s[1], env)
            if not isinstance(v, int):
                raise IllDefined("array-returned")
            raise _Return(v)
        if k == "if":
            c = self.eval(s[1], env)
            if not isinstance(c, int):
                raise IllDefined("array-in-arithmetic")
            self.need_bool(c)
            self.exec(s[2] if c else s[3], env)
            return
        if k == "while":
            while True:
                c = self.eval(s[1], env)
                if not isinstance(c, int):
                    raise IllDefined("array-in-arithmetic")
                self.need_bool(c)
                if not c:
                    return
                self.exec(s[2], env)
        if k == "seq":
            for x in s[1]:
                self.exec(x, env)
            return
        if k == "ass":
            lhs = s[1]
            if lhs[0] == "var":
                v = self.eval(s[2], env)
                if not isinstance(v, int):
                    raise IllDefined("array-assigned")
                kind, _ = self.lookup(lhs[1], env)
                if kind == "local":
                    env["vars"][lhs[1]] = v
                elif kind == "gvar":
                    self.gvars[lhs[1]] = v
                    self.note_write(("g", lhs[1]))
                else:
                    raise IllDefined("assignment-to-non-variable")
                return
            if lhs[0] == "sub":
                kind, arr = self.lookup(lhs[1], env)
                if kind not in ("larray", "garray"):
                    raise IllDefined("subscript-of-non-array")
                i, v = self.group([lhs[2], s[2]], env, self.contains_call)
                if not isinstance(i, int) or not isinstance(v, int):
                    raise IllDefined("array-in-arithmetic")
                if i < 0 or i >= len(arr.cells):
                    raise IllDefined("subscript-range")
                if arr.const:
                    raise IllDefined("store-into-string")
                arr.cells[i] = v
                self.note_write(("a", id(arr)))
                return
            raise IllDefined("bad-assignment-target")
        if k == "callst":
            self.call(s[1], s[2], env, False)
            return
        if k == "sysst":
            self.syscall(s[1], s[2], env, False)
            return
        raise IllDefined("bad-statement")

    def run(self):
        """-> dict(status, exit, events, calls, reason)"""
        import sys
        old = sys.getrecursionlimit()
        sys.setrecursionlimit(max(old, 20000))
        try:
            self.setup()
            env = {"vars": {}, "vals": {}, "arrays": {}, "pf": set(), "kind": "proc", "formal_names": set()}
            try:
                self.call("main", [], env, False)
                code = 0
            except _Exit as x:
                code = x.value
            return {"status": "defined", "exit": code, "events": self.events, "calls": self.calls,
                    "steps": self.steps, "maxdepth": self.maxdepth_seen, "consumed": self.conpos,
                    "multi_call_groups": self.multi_call_groups,
                    "features": self.features}
        except IllDefined as e:
            return {"status": "ill-defined", "reason": e.reason, "steps": self.steps, "events": self.events,
                    "features": self.features}
        except RecursionError:
            return {"status": "ill-defined", "reason": "host-recursion", "steps": self.steps, "events": self.events,
                    "features": self.features}
        finally:
            sys.setrecursionlimit(old)


def run_source(text, console=b"", files=None, **kw):
    try:
        prog = parse(text)
    except ParseError as e:
        return {"status": "unparsed", "reason": str(e)}
    return Interp(prog, console, files, **kw).run()
