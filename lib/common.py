"""Shared plumbing: locations, seeds, build cache (E1), case runner (E5), verdicts (E8).

Everything here is stdlib-only python3.  The repository under test is taken
from VERIF_REPO (default /repo) so that the same checks can be pointed at a
scratch copy carrying a seeded defect.
"""
import atexit
import fcntl
import hashlib
import json
import os
import re
import shutil
import subprocess
import sys
import tempfile
import time
from concurrent.futures import ThreadPoolExecutor

VERIF = os.path.dirname(os.path.dirname(os.path.abspath(__file__)))
REPO = os.path.abspath(os.environ.get("VERIF_REPO", "/repo"))
BUILD = os.path.join(VERIF, "build")
NCPU = int(os.environ.get("VERIF_JOBS", str(os.cpu_count() or 4)))
GUARD = "HEX_VERIF"
# separate cache namespace for scratch copies (mutation self-test)
TAG = "" if REPO == "/repo" else "alt" + hashlib.sha256(REPO.encode()).hexdigest()[:6] + "-"


def seed():
    try:
        return int(os.environ.get("VERIF_SEED", "1"))
    except ValueError:
        return 1


class HarnessError(Exception):
    """The machinery failed (not the code under test): exit status 2."""


# --------------------------------------------------------------------------
# scratch space
# --------------------------------------------------------------------------
_scratch_root = None


def sweep_stale_scratch(base):
    """Remove scratch roots left behind by runs that were killed (the owner's pid is in the name)."""
    try:
        names = os.listdir(base)
    except OSError:
        return
    for n in names:
        m = re.match(r"hexverif-(\d+)-", n)
        if m and not os.path.exists("/proc/%s" % m.group(1)):
            shutil.rmtree(os.path.join(base, n), ignore_errors=True)


def scratch_root():
    global _scratch_root
    if _scratch_root is None:
        base = os.environ.get("VERIF_SCRATCH") or tempfile.gettempdir()
        sweep_stale_scratch(base)
        _scratch_root = tempfile.mkdtemp(prefix="hexverif-%d-" % os.getpid(), dir=base)
        atexit.register(lambda: shutil.rmtree(_scratch_root, ignore_errors=True))
    return _scratch_root


def scratch(name):
    d = tempfile.mkdtemp(prefix=name + "-", dir=scratch_root())
    return d


# --------------------------------------------------------------------------
# E1: build cache keyed by content
# --------------------------------------------------------------------------
_INC = re.compile(r'^\s*#\s*include\s*"([^"]+)"', re.M)


def _closure(srcs, incdirs):
    """Transitive closure of quoted includes that resolve inside incdirs."""
    seen = {}
    todo = [os.path.abspath(s) for s in srcs]
    while todo:
        p = todo.pop()
        if p in seen:
            continue
        try:
            data = open(p, "rb").read()
        except OSError:
            continue
        seen[p] = data
        text = data.decode("latin-1")
        for inc in _INC.findall(text):
            for d in [os.path.dirname(p)] + list(incdirs):
                q = os.path.abspath(os.path.join(d, inc))
                if os.path.isfile(q):
                    todo.append(q)
                    break
    return seen


def content_key(files, extra):
    h = hashlib.sha256()
    for p in sorted(files):
        h.update(os.path.relpath(p, "/").encode())
        h.update(b"\0")
        h.update(files[p])
        h.update(b"\0")
    h.update(repr(extra).encode())
    return h.hexdigest()[:20]


FLAVOURS = {
    # asserts live in every flavour (no -DNDEBUG)
    "plain": ["g++", "-std=c++17", "-O2", "-g", "-D" + GUARD],
    "san": ["g++", "-std=c++17", "-O1", "-g", "-fno-omit-frame-pointer",
            "-fsanitize=address,undefined", "-fno-sanitize-recover=all",
            "-D_GLIBCXX_ASSERTIONS", "-D" + GUARD],
    "fuzz": ["clang++", "-std=gnu++17", "-O1", "-g", "-fno-omit-frame-pointer",
             "-fsanitize=fuzzer,address,undefined", "-fno-sanitize-recover=all",
             "-fno-sanitize=object-size", "-D" + GUARD],
    # shipped drivers, guard OFF
    "cli": ["g++", "-std=c++17", "-O2", "-g"],
    "cli-san": ["g++", "-std=c++17", "-O1", "-g", "-fno-omit-frame-pointer",
                "-fsanitize=address,undefined", "-fno-sanitize-recover=all",
                "-D_GLIBCXX_ASSERTIONS"],
}


class _Lock:
    def __init__(self, path):
        self.path = path

    def __enter__(self):
        os.makedirs(os.path.dirname(self.path), exist_ok=True)
        self.f = open(self.path, "w")
        fcntl.flock(self.f, fcntl.LOCK_EX)
        return self

    def __exit__(self, *a):
        fcntl.flock(self.f, fcntl.LOCK_UN)
        self.f.close()


def _run(cmd, cwd=None, what="build", timeout=3600):
    p = subprocess.run(cmd, cwd=cwd, stdout=subprocess.PIPE, stderr=subprocess.STDOUT,
                       timeout=timeout)
    if p.returncode != 0:
        sys.stderr.write(p.stdout.decode("latin-1")[-6000:])
        raise HarnessError("%s failed: %s" % (what, " ".join(cmd)[:400]))
    return p.stdout


def build_cxx(name, srcs, flavour="plain", flags=(), libs=(), incdirs=()):
    """Compile srcs (absolute, or relative to VERIF/harness or REPO) into an
    executable whose cache key covers every file it includes."""
    resolved = []
    for s in srcs:
        if os.path.isabs(s):
            resolved.append(s)
        elif s.startswith("repo:"):
            resolved.append(os.path.join(REPO, s[5:]))
        else:
            resolved.append(os.path.join(VERIF, "harness", s))
    for r in resolved:
        if not os.path.isfile(r):
            raise HarnessError("missing source " + r)
    inc = [REPO, os.path.join(VERIF, "harness")] + list(incdirs)
    files = _closure(resolved, inc)
    base = FLAVOURS[flavour]
    key = content_key(files, (base, list(flags), list(libs), name))
    outdir = os.path.join(BUILD, "%s%s-%s-%s" % (TAG, name, flavour, key))
    exe = os.path.join(outdir, name)
    if os.path.isfile(exe):
        return exe
    with _Lock(os.path.join(BUILD, ".lock-%s%s-%s" % (TAG, name, flavour))):
        if os.path.isfile(exe):
            return exe
        _prune(TAG + name + "-" + flavour + "-", keep=outdir)
        tmp = outdir + ".tmp%d" % os.getpid()
        shutil.rmtree(tmp, ignore_errors=True)
        os.makedirs(tmp)
        objs = []
        jobs = []
        for r in resolved:
            o = os.path.join(tmp, os.path.basename(r) + ".o")
            objs.append(o)
            jobs.append(base + list(flags) + ["-I" + d for d in inc] + ["-c", r, "-o", o])
        with ThreadPoolExecutor(max_workers=min(len(jobs), NCPU)) as ex:
            list(ex.map(lambda c: _run(c, what="compile " + name), jobs))
        link = [base[0]] + [f for f in base[1:] if f.startswith("-fsanitize") or f == "-g"]
        _run(link + objs + ["-o", os.path.join(tmp, name)] + list(libs), what="link " + name)
        for o in objs:
            os.unlink(o)
        os.rename(tmp, outdir)
    return exe


def build_shared(name, src, flags=()):
    src = os.path.join(VERIF, "harness", src)
    data = open(src, "rb").read()
    key = content_key({src: data}, (list(flags), name))
    outdir = os.path.join(BUILD, "%s-so-%s" % (name, key))
    so = os.path.join(outdir, name + ".so")
    if os.path.isfile(so):
        return so
    with _Lock(os.path.join(BUILD, ".lock-%s-so" % name)):
        if os.path.isfile(so):
            return so
        _prune(name + "-so-", keep=outdir)
        tmp = outdir + ".tmp%d" % os.getpid()
        os.makedirs(tmp)
        _run(["gcc", "-O2", "-g", "-fPIC", "-shared", src, "-o", os.path.join(tmp, name + ".so"),
              "-ldl"] + list(flags), what="shim " + name)
        os.rename(tmp, outdir)
    return so


def _prune(prefix, keep):
    if not os.path.isdir(BUILD):
        return
    for d in os.listdir(BUILD):
        p = os.path.join(BUILD, d)
        if d.startswith(prefix) and p != keep and os.path.isdir(p):
            shutil.rmtree(p, ignore_errors=True)


def repo_tree_key(patterns):
    """Key over repo files selected by glob patterns (relative to REPO)."""
    import glob
    files = {}
    for pat in patterns:
        for p in glob.glob(os.path.join(REPO, pat)):
            if os.path.isfile(p):
                files[p] = open(p, "rb").read()
    return files


def build_cli():
    """The five shipped executables, built by CMake exactly as the baseline
    (RelWithDebInfo, guard OFF), into a build directory of ours."""
    files = repo_tree_key(["*.hpp", "*.cpp", "CMakeLists.txt", "verilog/*", "cmake/*",
                           "tests/CMakeLists.txt", "tests/unit/*", "tests/*.in", "tests/*.py"])
    key = content_key(files, "cli-v1")
    outdir = os.path.join(BUILD, "%scli-%s" % (TAG, key))
    stamp = os.path.join(outdir, ".done")
    if os.path.isfile(stamp):
        return outdir
    with _Lock(os.path.join(BUILD, ".lock-%scli" % TAG)):
        if os.path.isfile(stamp):
            return outdir
        _prune(TAG + "cli-", keep=outdir)
        shutil.rmtree(outdir, ignore_errors=True)
        os.makedirs(outdir)
        _run(["cmake", "-G", "Ninja", "-S", REPO, "-B", outdir,
              "-DCMAKE_BUILD_TYPE=RelWithDebInfo", "-DCMAKE_CXX_FLAGS=-Wno-error"],
             what="cmake configure")
        _run(["cmake", "--build", outdir, "--target", "hexasm", "hexsim", "xcmp", "xrun", "hextb",
              "-j", str(NCPU)], what="cmake build")
        open(stamp, "w").write("ok\n")
    return outdir


# --------------------------------------------------------------------------
# E5: case files and the fork-per-case runner protocol
# --------------------------------------------------------------------------
def write_cases(path, cases):
    """cases: list of (id, {field: bytes|str|int})"""
    with open(path, "wb") as f:
        f.write(b"%d\n" % len(cases))
        for cid, fields in cases:
            f.write(b"C %s %d\n" % (str(cid).encode(), len(fields)))
            for k, v in fields.items():
                if isinstance(v, int):
                    v = str(v)
                if isinstance(v, str):
                    v = v.encode("latin-1")
                f.write(b"%s %d\n" % (k.encode(), len(v)))
                f.write(v)
                f.write(b"\n")


def run_harness(exe, cases, args=(), workers=None, env=None, timeout=3600, tag="run"):
    """Split cases over worker processes of `exe`; each prints one JSON line per
    case on its output file.  Returns {id: result-dict}."""
    workers = workers or NCPU
    workers = max(1, min(workers, len(cases)))
    d = scratch(tag)
    chunks = [cases[i::workers] for i in range(workers)]
    procs = []
    e = dict(os.environ)
    e.setdefault("ASAN_OPTIONS", "abort_on_error=0:detect_leaks=0:halt_on_error=1:exitcode=66:allocator_may_return_null=1")
    e.setdefault("UBSAN_OPTIONS", "print_stacktrace=1:halt_on_error=1:exitcode=67")
    if env:
        e.update(env)
    for i, ch in enumerate(chunks):
        inp = os.path.join(d, "in%d" % i)
        outp = os.path.join(d, "out%d" % i)
        wd = os.path.join(d, "wd%d" % i)
        os.makedirs(wd)
        write_cases(inp, ch)
        p = subprocess.Popen([exe] + list(args) + [inp, outp], cwd=wd, env=e,
                             stdout=subprocess.DEVNULL, stderr=open(os.path.join(d, "err%d" % i), "wb"))
        procs.append((p, outp, i))
    results = {}
    deadline = time.time() + timeout
    for p, outp, i in procs:
        try:
            rc = p.wait(timeout=max(1, deadline - time.time()))
        except subprocess.TimeoutExpired:
            p.kill()
            raise HarnessError("harness %s worker %d exceeded %ds" % (exe, i, timeout))
        if rc != 0:
            err = open(os.path.join(d, "err%d" % i), "rb").read().decode("latin-1")[-3000:]
            raise HarnessError("harness %s worker %d exit %d: %s" % (exe, i, rc, err))
        with open(outp, "rb") as f:
            for line in f:
                line = line.strip()
                if not line:
                    continue
                r = json.loads(line.decode("latin-1"))
                results[str(r["id"])] = r
    shutil.rmtree(d, ignore_errors=True)
    missing = [str(c[0]) for c in cases if str(c[0]) not in results]
    if missing:
        raise HarnessError("harness %s lost %d cases (first %s)" % (exe, len(missing), missing[0]))
    return results


def unhex(s):
    return bytes.fromhex(s) if s else b""


# --------------------------------------------------------------------------
# E8: verdicts, evidence, known findings
# --------------------------------------------------------------------------
KNOWN_FILE = os.path.join(VERIF, "known_findings.txt")


def load_known():
    """known: property=<id> key=<key> :: <what fails>   (suppresses, printed as KNOWN-FINDING)
       fixed: property=<id> <commit> <what failed>       (suppresses nothing)"""
    known = {}
    if os.path.isfile(KNOWN_FILE):
        for line in open(KNOWN_FILE):
            line = line.strip()
            if not line.startswith("known:"):
                continue
            m = re.match(r"known:\s+property=(\S+)\s+key=(\S+)\s*::\s*(.*)", line)
            if m:
                known.setdefault(m.group(1), {})[m.group(2)] = m.group(3)
    return known


class Verdict:
    def __init__(self, pid, tier):
        self.pid = pid
        self.tier = tier
        self.t0 = time.time()
        self.violations = []      # (key, replay-dict)
        self.known_hits = {}      # key -> count
        self.inconclusive = []
        self.cov = {"evaluations": 0, "distinct_nontrivial": 0, "rule": "", "samples": []}
        self.assumptions = []
        self._known = load_known().get(pid, {})
        self._replay_dir = os.path.join(VERIF, "replays", pid)
        self._nrep = 0

    def violation(self, key, replay):
        """key: stable identifier of *what* failed (used for known-finding matching)."""
        if key in self._known:
            self.known_hits[key] = self.known_hits.get(key, 0) + 1
            return False
        if len(self.violations) < 200:
            self.violations.append((key, replay))
        else:
            self.violations.append((key, None))
        return True

    def count(self, k, n=1):
        self.cov[k] = self.cov.get(k, 0) + n

    def hist(self, k, b, n=1):
        h = self.cov.setdefault(k, {})
        b = str(b)
        h[b] = h.get(b, 0) + n

    def sample(self, s, limit=6):
        if len(self.cov["samples"]) < limit:
            self.cov["samples"].append(s)

    def finish(self, min_evaluations=1):
        os.makedirs(os.path.join(VERIF, "evidence"), exist_ok=True)
        nviol = len(self.violations)
        if self.cov["evaluations"] < min_evaluations:
            self.inconclusive.append("only %d evaluations (minimum %d)" % (self.cov["evaluations"], min_evaluations))
        if not self.cov["samples"]:
            self.cov["samples"].append("(none recorded)")
        ev = {
            "property_id": self.pid, "tier": self.tier, "seed": seed(),
            "level": "exploration", "coverage": self.cov,
            "assumptions": self.assumptions,
            "wall_s": round(time.time() - self.t0, 2),
            "violations": nviol,
        }
        if self.known_hits:
            ev["coverage"]["known_findings_hit"] = self.known_hits
        if self.inconclusive:
            ev["coverage"]["inconclusive"] = self.inconclusive
        with open(os.path.join(VERIF, "evidence", self.pid + ".json"), "w") as f:
            json.dump(ev, f, indent=1, sort_keys=True, default=str)
            f.write("\n")
        for key, n in sorted(self.known_hits.items()):
            print("KNOWN-FINDING: property=%s %s [key=%s, %d cases]" % (self.pid, self._known[key], key, n))
        if nviol:
            shutil.rmtree(self._replay_dir, ignore_errors=True)
            os.makedirs(self._replay_dir, exist_ok=True)
            seen = {}
            for key, rep in self.violations:
                seen[key] = seen.get(key, 0) + 1
                if rep is None or seen[key] > 3:
                    continue
                self._nrep += 1
                path = os.path.join(self._replay_dir, "v%03d.json" % self._nrep)
                with open(path, "w") as f:
                    json.dump({"property": self.pid, "key": key, "case": rep}, f, indent=1, default=str)
                print("VIOLATION property=%s replay=%s" % (self.pid, path))
                print("  key=%s" % key)
            print("%s: %d violations in %d evaluations (%d distinct keys)" %
                  (self.pid, nviol, self.cov["evaluations"], len(seen)))
            return 1
        if self.inconclusive:
            print("%s: INCONCLUSIVE: %s" % (self.pid, "; ".join(self.inconclusive)))
            return 2
        shutil.rmtree(self._replay_dir, ignore_errors=True)
        print("%s: held on %d evaluations (%d distinct non-trivial), %.1fs" %
              (self.pid, self.cov["evaluations"], self.cov["distinct_nontrivial"], time.time() - self.t0))
        return 0


def run_selfgen(exe, argsets, timeout=7200, tag="selfgen", env=None, maxpar=None):
    """Run `exe *args` once per argset (at most maxpar at a time), each in its own
    scratch directory; "@OUT" in args is replaced by the result file (appended if absent).
    Returns list of (args, returncode, parsed-json-or-None, stderr-tail)."""
    d = scratch(tag)
    e = dict(os.environ)
    if env:
        e.update(env)

    def one(iargs):
        i, args = iargs
        wd = os.path.join(d, "w%d" % i)
        os.makedirs(wd)
        out = os.path.join(wd, "out.json")
        a = [str(x) for x in args]
        if "@OUT" not in a:
            a.append("@OUT")
        a = [out if x == "@OUT" else x for x in a]
        with open(os.path.join(wd, "stderr"), "wb") as errf:
            try:
                rc = subprocess.run([exe] + a, cwd=wd, env=e, stdout=subprocess.DEVNULL, stderr=errf,
                                    timeout=timeout).returncode
            except subprocess.TimeoutExpired:
                rc = -999
        js = None
        if os.path.isfile(out):
            try:
                js = json.load(open(out, encoding="latin-1"))
            except ValueError:
                js = None
        err = open(os.path.join(wd, "stderr"), "rb").read().decode("latin-1")[-3000:]
        shutil.rmtree(wd, ignore_errors=True)
        return (args, rc, js, err)
    with ThreadPoolExecutor(max_workers=maxpar or NCPU) as ex:
        res = list(ex.map(one, list(enumerate(argsets))))
    shutil.rmtree(d, ignore_errors=True)
    return res


def run_file_stdin(cmd, data, cwd=None, env=None, timeout=180):
    """Run cmd with a regular (seekable) file holding `data` as standard input.
    -> (returncode or "timeout", stdout, stderr, offset): offset is where the shared file position stands after the
    process has ended, i.e. how much of its input the process took from whoever reads the same file next."""
    d = scratch("stdin")
    path = os.path.join(d, "stdin.dat")
    with open(path, "wb") as f:
        f.write(data)
    fd = os.open(path, os.O_RDONLY)
    try:
        try:
            r = subprocess.run(cmd, stdin=fd, stdout=subprocess.PIPE, stderr=subprocess.PIPE, cwd=cwd, env=env, timeout=timeout)
            res = (r.returncode, r.stdout, r.stderr, os.lseek(fd, 0, os.SEEK_CUR))
        except subprocess.TimeoutExpired:
            res = ("timeout", b"", b"", None)
    finally:
        os.close(fd)
        shutil.rmtree(d, ignore_errors=True)
    return res


def pmap(fn, items, nproc=None):
    """multiprocessing map with fork (fn must be a module-level function)."""
    import multiprocessing as mp
    nproc = nproc or NCPU
    if nproc <= 1 or len(items) <= 1:
        return [fn(x) for x in items]
    scratch_root()      # created here so that the forked workers share it (they leave through os._exit, without atexit)
    ctx = mp.get_context("fork")
    with ctx.Pool(min(nproc, len(items))) as pool:
        return pool.map(fn, items, chunksize=1)


def run_harness_single(exe, cases, args=(), env=None, timeout=3600, tag="run1"):
    """Like run_harness but one harness process (for use inside pmap workers)."""
    return run_harness(exe, cases, args=args, workers=1, env=env, timeout=timeout, tag=tag)


VL_INC = ["/usr/share/verilator/include", "/usr/share/verilator/include/vltstd"]


def build_vl(prefix, sources, args=()):
    """Verilate sources (relative to REPO) into BUILD/<tag>vl-<prefix>-<key>/ and build <prefix>__ALL.a.
    Returns the model directory (headers + archive)."""
    paths = [os.path.join(REPO, s) for s in sources]
    files = {}
    for p in paths:
        if not os.path.isfile(p):
            raise HarnessError("missing verilog source " + p)
        files[p] = open(p, "rb").read()
    key = content_key(files, (prefix, list(args), "v2"))
    outdir = os.path.join(BUILD, "%svl-%s-%s" % (TAG, prefix, key))
    lib = os.path.join(outdir, prefix + "__ALL.a")
    if os.path.isfile(lib):
        return outdir
    with _Lock(os.path.join(BUILD, ".lock-%svl-%s" % (TAG, prefix))):
        if os.path.isfile(lib):
            return outdir
        _prune("%svl-%s-" % (TAG, prefix), keep=outdir)
        tmp = outdir + ".tmp%d" % os.getpid()
        shutil.rmtree(tmp, ignore_errors=True)
        os.makedirs(tmp)
        _run(["verilator", "--cc", "--prefix", prefix, "--top-module", "hex", "-Wno-fatal", "-Wno-lint", "-O2",
              "--Mdir", tmp] + list(args) + paths, what="verilator " + prefix)
        _run(["make", "-C", tmp, "-f", prefix + ".mk", "-j", "4", "OPT_FAST=-O2", "OPT_SLOW=-O1"], what="make " + prefix)
        os.rename(tmp, outdir)
        # the archive records absolute paths nowhere; headers are used from outdir
    return outdir


def build_rtl_harness(name, src, models, flags=(), extra_srcs=()):
    """models: list of model dirs (from build_vl).  Links verilated runtime."""
    libs = []
    incd = list(VL_INC)
    for m in models:
        incd.append(m)
        libs += [a for a in sorted(os.listdir(m)) if a.endswith("__ALL.a")]
    libpaths = []
    for m in models:
        for a in sorted(os.listdir(m)):
            if a.endswith("__ALL.a"):
                libpaths.append(os.path.join(m, a))
    modelkey = "-".join(os.path.basename(m) for m in models)
    srcs = [src] + list(extra_srcs) + ["/usr/share/verilator/include/verilated.cpp",
                                       "/usr/share/verilator/include/verilated_threads.cpp"]
    return build_cxx(name, srcs, flavour="plain",
                     flags=list(flags) + ["-DVL_MODELKEY=\"%s\"" % modelkey[:200], "-faligned-new", "-Wno-attributes"],
                     libs=libpaths + ["-lpthread"], incdirs=incd)
