"""Builds of the Verilated models and RTL harnesses (E6)."""
from lib import common

SV = ["verilog/hex_pkg.sv", "verilog/hex.sv", "verilog/processor.sv", "verilog/memory.sv"]
PUB = ["--public-flat-rw"]
XRAND = ["--x-assign", "unique", "--x-initial", "unique"]


def models():
    sv = common.build_vl("Vsv", SV, PUB + XRAND)
    v = common.build_vl("Vv", ["verilog/hex_pkg.sv", "verilog/hex.sv", "verilog/processor.v", "verilog/memory.sv"], PUB + XRAND)
    s = common.build_vl("Vs", ["verilog/hex_pkg.sv", "verilog/hex.sv", "synth/processor.v", "verilog/memory.sv"], PUB + XRAND)
    return [sv, v, s]


def build_h_rtl():
    return common.build_rtl_harness("h_rtl", "h_rtl.cpp", models(), extra_srcs=["repo:hex.cpp"])


def build_h_tb():
    m = common.build_vl("Vhex_pkg", SV, ["--public-flat-rw", "--trace"])
    return common.build_rtl_harness("h_tb", "h_tb.cpp", [m], extra_srcs=["repo:hex.cpp", "/usr/share/verilator/include/verilated_vcd_c.cpp"])
