"""E4 (assembly part): generators of label/DATA/instruction programs."""
from lib.asmsrc import ABSOLUTE, RELATIVE

BOUNDS = [16, 256, 4096, 65536]
ONE_BYTE = [("opr", "ADD"), ("opr", "SUB"), ("imm", "LDAC", 0), ("imm", "LDBC", 7), ("imm", "LDAI", 3),
            ("imm", "STAI", 15), ("imm", "LDAM", 1), ("imm", "LDAP", 0)]
NAMES = ["L%d", "lab%d", "x_%d", "start%d", "loop_%d", "Zq%d", "a%d", "DATAx%d", "BRx%d", "f_%d_"]


def filler(rnd, nbytes, big_ok=True):
    """Directives (no DATA, no labels) occupying exactly nbytes."""
    out = []
    while nbytes > 0:
        if big_ok and nbytes >= 8 and (nbytes > 64 or rnd.random() < 0.3):
            out.append(("imm", rnd.choice(["LDAC", "LDBC", "LDAP"]), rnd.choice([2147483647, -2147483647, 0x12345678])))
            nbytes -= 8
        elif nbytes >= 3 and rnd.random() < 0.2:
            out.append(("imm", "LDAC", rnd.randrange(256, 4096)))
            nbytes -= 3
        elif nbytes >= 2 and rnd.random() < 0.3:
            out.append(("imm", rnd.choice(["LDAC", "LDBC", "BR"]), rnd.choice([rnd.randrange(16, 256), -rnd.randrange(1, 17)])))
            nbytes -= 2
        else:
            out.append(rnd.choice(ONE_BYTE))
            nbytes -= 1
    return out


def sprinkle_data(rnd, dirs, n):
    for _ in range(n):
        dirs.insert(rnd.randrange(len(dirs) + 1), ("data", rnd.choice([0, 1, -1, 0x7FFFFFFF, rnd.randrange(1 << 32)])))
    return dirs


def window(rnd, centre, width):
    return max(0, centre + rnd.randrange(-width, width + 1))


def boundary_case(rnd, big=False):
    """One reference at a distance around an encoding-length boundary."""
    rel = rnd.random() < 0.7
    b = rnd.choice(BOUNDS if big else BOUNDS[:3])
    if rel:
        mn = rnd.choice(RELATIVE)
        d = window(rnd, rnd.choice([b, b - 1, b - 2, b + 1, b - 8, 0, 1, 2]), 4)
        fwd = rnd.random() < 0.5
        body = filler(rnd, d)
        sprinkle_data(rnd, body, rnd.choice([0, 0, 0, 1, 2, 3]))
        pre = filler(rnd, rnd.randrange(0, 6))
        post = filler(rnd, rnd.randrange(0, 6))
        if fwd:
            dirs = pre + [("ref", mn, "T")] + body + [("label", "T")] + post
        else:
            dirs = pre + [("label", "T")] + body + [("ref", mn, "T")] + post
        return dirs, {"family": "boundary-rel", "mnem": mn, "fwd": fwd, "dist": d}
    mn = rnd.choice(ABSOLUTE)
    w = window(rnd, rnd.choice([b, b - 1, b + 1, 0, 1, 3]), 2)     # target word address
    body = filler(rnd, 4 * w)
    fwd = rnd.random() < 0.5
    tail = [("label", "T"), ("data", rnd.randrange(1 << 32))]
    if fwd:
        # reference first, then filler up to the data word: its own size moves the target
        dirs = [("ref", mn, "T")] + body + tail
    else:
        dirs = body + tail + filler(rnd, rnd.randrange(0, 9)) + [("ref", mn, "T")]
    return dirs, {"family": "boundary-abs", "mnem": mn, "fwd": fwd, "word": w}


def chain_case(rnd):
    """References whose encoded lengths depend on each other."""
    n = rnd.randrange(2, 31)
    b = rnd.choice(BOUNDS[:3])
    dirs = []
    style = rnd.choice(["fan", "nest", "ring", "ladder"])
    if style == "fan":
        # n forward references, then filler, then their labels close together: each distance spans the later references
        for i in range(n):
            dirs.append(("ref", rnd.choice(RELATIVE), "T%d" % i))
        dirs += filler(rnd, window(rnd, b - n, n + 2))
        for i in range(n):
            dirs.append(("label", "T%d" % i))
            dirs += filler(rnd, rnd.randrange(0, 3))
    elif style == "nest":
        # ref_i ... ref_n  filler  T_n ... T_i  (nested spans)
        for i in range(n):
            dirs.append(("ref", rnd.choice(RELATIVE), "T%d" % i))
            dirs += filler(rnd, rnd.randrange(0, 2))
        dirs += filler(rnd, window(rnd, b - 2 * n, n + 3))
        for i in reversed(range(n)):
            dirs.append(("label", "T%d" % i))
            dirs += filler(rnd, rnd.randrange(0, 2))
    elif style == "ring":
        # forward and backward references across a common middle
        for i in range(n):
            dirs.append(("label", "B%d" % i))
            dirs.append(("ref", rnd.choice(RELATIVE), "F%d" % i))
        dirs += filler(rnd, window(rnd, b - 3 * n // 2, n + 3))
        for i in range(n):
            dirs.append(("label", "F%d" % i))
            dirs.append(("ref", rnd.choice(RELATIVE), "B%d" % (n - 1 - i)))
    else:
        # ladder: each reference jumps over the next few, distances hover at a boundary
        k = rnd.randrange(1, 6)
        for i in range(n):
            dirs.append(("label", "S%d" % i))
            dirs.append(("ref", rnd.choice(RELATIVE), "S%d" % min(n, i + k)))
            dirs += filler(rnd, window(rnd, (b - 2) // max(1, k), 2) if b <= 256 else rnd.randrange(0, 20))
        dirs.append(("label", "S%d" % n))
    sprinkle_data(rnd, dirs, rnd.choice([0, 0, 1, 2, 4]))
    return dirs, {"family": "chain-" + style, "n": n, "bound": b}


def data_alignment_case(rnd):
    """A size change in a reference is absorbed (or not) by DATA alignment."""
    dirs = []
    n = rnd.randrange(1, 6)
    for i in range(n):
        dirs.append(("ref", rnd.choice(RELATIVE), "T%d" % i))
        dirs += filler(rnd, rnd.randrange(0, 4), big_ok=False)
        if rnd.random() < 0.7:
            dirs.append(("label", "D%d" % i))
            dirs.append(("data", rnd.randrange(1 << 32)))
            if rnd.random() < 0.5:
                dirs.append(("ref", rnd.choice(ABSOLUTE), "D%d" % rnd.randrange(0, i + 1)))
    b = rnd.choice([16, 256])
    dirs += filler(rnd, window(rnd, b - 6, 8))
    for i in range(n):
        dirs.append(("label", "T%d" % i))
        dirs += filler(rnd, rnd.randrange(0, 3), big_ok=False)
    # make sure every D label referenced exists
    have = {d[1] for d in dirs if d[0] == "label"}
    dirs = [d for d in dirs if not (d[0] == "ref" and d[2] not in have)]
    return dirs, {"family": "data-align", "n": n}


def random_case(rnd):
    nlabels = rnd.randrange(1, 61)
    ndirs = rnd.randrange(1, 401)
    tmpl = rnd.choice(NAMES)
    code_labels = [tmpl % i for i in range(nlabels)]
    data_labels = []
    dirs = []
    for i in range(ndirs):
        r = rnd.random()
        if r < 0.30:
            dirs.append(("ref", rnd.choice(RELATIVE), rnd.choice(code_labels)))
        elif r < 0.36 and data_labels:
            dirs.append(("ref", rnd.choice(ABSOLUTE), rnd.choice(data_labels)))
        elif r < 0.42:
            name = "d%d_%s" % (len(data_labels), tmpl % 0)
            data_labels.append(name)
            dirs.append(("label", name))
            dirs.append(("data", rnd.choice([0, 1, -1, rnd.randrange(1 << 32), -rnd.randrange(1 << 31)])))
        elif r < 0.46:
            dirs.append(("data", rnd.randrange(1 << 32)))
        elif r < 0.50:
            dirs.append(("imm", rnd.choice(RELATIVE + ABSOLUTE), rnd.choice([rnd.randrange(-70000, 70000), rnd.randrange(-(1 << 31), 1 << 31)])))
        else:
            dirs += filler(rnd, rnd.randrange(1, 12))
    # place code labels (FUNC/PROC/plain) at random places
    for i, name in enumerate(code_labels):
        kind = rnd.choice(["label", "label", "label", "func", "proc"])
        dirs.insert(rnd.randrange(len(dirs) + 1), (kind, name))
    if rnd.random() < 0.15 and code_labels:
        # absolute reference to a code label: accepted only if it lands on a word boundary
        dirs.insert(rnd.randrange(len(dirs) + 1), ("ref", rnd.choice(ABSOLUTE), rnd.choice(code_labels)))
    return dirs, {"family": "random", "labels": nlabels, "dirs": len(dirs)}


def label_before_data_case(rnd):
    """Labels directly before DATA at every alignment; referenced absolutely and relatively."""
    dirs = [("ref", "BR", "go")]
    k = rnd.randrange(0, 5)
    dirs += filler(rnd, k, big_ok=False)
    n = rnd.randrange(1, 5)
    for i in range(n):
        dirs += filler(rnd, rnd.randrange(0, 4), big_ok=False)
        dirs.append(("label", "v%d" % i))
        if rnd.random() < 0.3:
            dirs.append(("label", "alias%d" % i))
        dirs.append(("data", 1000 + i))
    dirs.append(("label", "go"))
    for i in range(n):
        dirs.append(("ref", rnd.choice(ABSOLUTE), "v%d" % i))
        if rnd.random() < 0.3:
            dirs.append(("ref", rnd.choice(RELATIVE), "v%d" % i))
    return dirs, {"family": "label-before-data", "n": n, "lead": k}


def absorb_case(rnd):
    """A reference grows, the growth is absorbed by the alignment gap in front of a DATA word (so no label moves),
    but instructions in between shift and one of them sits exactly at an encoding-length boundary."""
    b = rnd.choice([16, 256, 256, 4096])
    dirs = [("label", "top")]
    dirs += filler(rnd, rnd.randrange(0, 4), big_ok=False)
    # A: forward reference whose own length depends on what follows
    mnA = rnd.choice(RELATIVE)
    mnB = rnd.choice(RELATIVE)
    style = rnd.choice(["A-then-B", "B-then-A", "two-A"])
    span = window(rnd, b - 3, 4)
    body = filler(rnd, max(0, span), big_ok=b > 256)
    if style == "A-then-B":
        dirs += [("ref", mnA, "d")] + body + [("ref", mnB, "top")]
    elif style == "B-then-A":
        dirs += body[:len(body) // 2] + [("ref", mnA, "d")] + body[len(body) // 2:] + [("ref", mnB, "top")]
    else:
        dirs += [("ref", mnA, "d")] + body + [("ref", mnB, "top"), ("ref", rnd.choice(RELATIVE), "d")]
    dirs += filler(rnd, rnd.randrange(0, 4), big_ok=False)
    dirs += [("label", "d"), ("data", rnd.randrange(1 << 32))]
    if rnd.random() < 0.5:
        dirs += filler(rnd, rnd.randrange(0, 3), big_ok=False) + [("ref", rnd.choice(RELATIVE), rnd.choice(["top", "d"]))]
    if rnd.random() < 0.3:
        dirs += [("label", "e"), ("data", 7), ("ref", rnd.choice(ABSOLUTE), rnd.choice(["d", "e"]))]
    return dirs, {"family": "absorb-" + style, "bound": b}


def _no_symbol_before_data(dirs):
    """FUNC/PROC mark code; one placed directly before DATA has no first instruction and is out of scope."""
    out = list(dirs)
    for i, d in enumerate(out):
        if d[0] in ("func", "proc"):
            j = i + 1
            while j < len(out) and out[j][0] in ("label", "func", "proc"):
                j += 1
            if j < len(out) and out[j][0] == "data":
                out[i] = ("label", d[1])
    return out


def generate(rnd, big=False):
    dirs, meta = _generate(rnd, big)
    return _no_symbol_before_data(dirs), meta


def _generate(rnd, big=False):
    r = rnd.random()
    if r < 0.27:
        return boundary_case(rnd, big=big and rnd.random() < 0.02)
    if r < 0.42:
        return absorb_case(rnd)
    if r < 0.58:
        return chain_case(rnd)
    if r < 0.65:
        return data_alignment_case(rnd)
    if r < 0.75:
        return label_before_data_case(rnd)
    return random_case(rnd)
