"""Shared machinery of C09 (xcmp) and C10 (hexasm): hostile inputs through the
sanitizer builds, outcome classification, violation keys."""
import os
import random
import re
import shutil
import subprocess

from lib import bytegen, common

FRAME = re.compile(r"#\d+ 0x[0-9a-f]+ in (.+?) (/[^\s:]+):(\d+)")
UB = re.compile(r"runtime error: (.*)")
ASAN = re.compile(r"ERROR: AddressSanitizer: ([A-Za-z0-9_-]+)")


def key_of(status, err):
    """(kind, innermost frame inside the repo sources, function) -> key string"""
    kind = None
    m = UB.search(err)
    if m:
        msg = m.group(1)
        for pat, k in (("signed integer overflow", "ub:signed-overflow"), ("left shift of negative", "ub:shift-negative"),
                       ("shift exponent", "ub:shift-exponent"), ("out of bounds", "ub:bounds"), ("null pointer", "ub:null"),
                       ("misaligned", "ub:misaligned"), ("negation of", "ub:negation-overflow"), ("not a valid value", "ub:invalid-value"),
                       ("downcast", "ub:bad-cast"), ("member call on", "ub:bad-member-call")):
            if pat in msg:
                kind = k
                break
        kind = kind or "ub:other"
    m = ASAN.search(err)
    if m and not kind:
        kind = "asan:" + m.group(1)
    if not kind and "Assertion" in err:
        kind = "assert"
    if not kind and "_GLIBCXX_ASSERT" in err or (not kind and "__glibcxx_assert" in err):
        kind = "glibcxx-assert"
    if not kind:
        kind = status.replace(" ", "")
    func = "?"
    for fm in FRAME.finditer(err):
        path = fm.group(2)
        if path.startswith(common.REPO + "/") or "/harness/" not in path and os.path.basename(path) in ("xcmp.hpp", "hexasm.hpp", "hexsim.hpp", "util.hpp"):
            f = fm.group(1)
            f = re.sub(r"\(.*", "", f)
            f = re.sub(r"<.*?>", "", f)
            func = f.split("::")[-2] + "::" + f.split("::")[-1] if f.count("::") >= 1 else f
            break
    if func == "?" and "Assertion" in err:
        m = re.search(r"Assertion `(.{0,60})", err)
        if m:
            func = re.sub(r"[^A-Za-z0-9_]+", "_", m.group(1))[:40]
    return "%s@%s" % (kind, func)


def classify(which, r):
    """-> (outcome, key or None, detail) outcome: accepted | rejected | violation | timeout"""
    st = r["status"]
    err = r["err"]
    o = r["out"]
    if st == "timeout":
        return "timeout", None, ""
    if st == "skipped":
        return "skipped", None, ""
    san = "runtime error:" in err or "AddressSanitizer" in err
    if st != "ok" or san or o is None:
        return "violation", key_of(st, err), err[-1500:]
    if o.get("ok"):
        if not o.get("file") or len(o["file"]) < 8:
            return "violation", "accepted-without-image", ""
        if which == "asm" and not o.get("reemit_same", True):
            return "violation", "reemit-differs", ""
        return "accepted", None, ""
    et = o.get("errtype")
    if et in ("Error", "std::exception"):
        if o.get("wrote"):
            return "violation", "rejected-but-wrote-output", o.get("err", "")
        if not o.get("err"):
            return "violation", "rejected-without-message", ""
        return "rejected", None, o.get("err", "")
    if et == "layout-runaway":
        return "violation", "layout-does-not-terminate", ""
    return "violation", "non-std-exception", o.get("err", "")


# Diagnostics of these classes are raised where the tool has a source position in hand (their constructors are given
# one): such an error object must carry it ("with the source position where one is known").  The plain hexutil::Error and
# classes that also have a position-less form (hexasm::InvalidOprError) or are given the position of a directive
# that the compiler generated itself (hexasm::UnknownLabelError: "unknown label main") say nothing either way.
LOCATED_CLASSES = {
    "xcmp::CharConstError", "xcmp::TokenError", "xcmp::UnexpectedTokenError", "xcmp::ExpectedNameError", "xcmp::ParserTokenError",
    "xcmp::SemanticTokenError", "xcmp::UnknownSymbolError", "xcmp::RedefinedSymbolError", "xcmp::NonConstValError",
    "xcmp::NonConstArrayLengthError", "xcmp::InvalidSyscallError",
    "hexasm::UnrecognisedTokenError", "hexasm::UnexpectedTokenError",
}


def position_rule(o):
    """-> violation key or None for a rejection record"""
    if o.get("errclass") in LOCATED_CLASSES and not o.get("located"):
        return "position-known-but-not-reported:" + o["errclass"].split("::")[-1]
    return None


def worker(job):
    which, wseed, n, exe, corpus = job
    rnd = random.Random(wseed)
    cases, meta = [], []
    for i in range(n):
        sub = rnd.randrange(1 << 62)
        r = random.Random(sub)
        cls, data = (bytegen.x_case if which == "x" else bytegen.asm_case)(r, corpus)
        data = data[:4096]
        f = {"src": data}
        if which == "x":
            f["want"] = "noexec"
        cases.append((i, f))
        meta.append((cls, data))
    # the tools take milliseconds per input; 8 s on a loaded machine is a generous first watchdog (firings are re-run
    # alone with a budget ten times as large before anything is said about them)
    res = common.run_harness_single(exe, cases, args=["cases"], tag="fz", env={"VERIF_CASE_TIMEOUT_MS": "8000", "VERIF_MAX_TIMEOUTS": "6"})
    out = {"n": n, "classes": {}, "accepted": 0, "rejected": 0, "located": 0, "diags": {}, "viol": [], "timeouts": [], "san_blocks": 0,
           "distinct": set(), "errclasses": {}}
    for i, (cls, data) in enumerate(meta):
        r = res[str(i)]
        oc, key, detail = classify(which, r)
        out["classes"][cls] = out["classes"].get(cls, 0) + 1
        out["distinct"].add(hash(data))
        if oc == "accepted":
            out["accepted"] += 1
        elif oc == "rejected":
            out["rejected"] += 1
            if r["out"].get("located"):
                out["located"] += 1
            ec = r["out"].get("errclass") or "?"
            out["errclasses"][ec] = out["errclasses"].get(ec, 0) + 1
            pk = position_rule(r["out"])
            if pk:
                out["viol"].append((pk, {"class": cls, "input_latin1": data.decode("latin-1")[:4096], "input_hex": data.hex()[:8192],
                                         "diagnostic": r["out"].get("err")}))
            d = re.sub(r"[0-9]+", "N", detail)[:50]
            d = re.sub(r"(symbol|label|name|character) \S+", r"\1 <x>", d)
            out["diags"][d] = out["diags"].get(d, 0) + 1
        elif oc == "timeout":
            out["timeouts"].append(data)
        elif oc == "skipped":
            out["skipped"] = out.get("skipped", 0) + 1
        else:
            if "runtime error:" in r["err"] or "AddressSanitizer" in r["err"]:
                out["san_blocks"] += 1
            out["viol"].append((key, {"class": cls, "input_latin1": data.decode("latin-1")[:4096], "input_hex": data.hex()[:8192],
                                      "report": detail}))
    out["distinct"] = len(out["distinct"])
    return out


def echo_family(which):
    """Inputs whose rejected line (which the tool's main() echoes in its diagnostic) contains each possible byte, and
    text that looks like formatting directives."""
    out = []
    for b in range(1, 256):
        c = bytes([b])
        if which == "x":
            out += [b"proc main() is " + c + b"\n", b"proc main() is skip " + c + b" ;\n"]
        else:
            out += [b"LDAC " + c + b"\n", c + b" 1\nLDAC 1\n"]
    for t in (b"%s", b"%d", b"%1%", b"%1$s", b"%n", b"%%", b"%|1$|", b"%", b"100%", b"{}", b"{0}", b"\\n", b"%c%c%c%c", b"%99999s"):
        if which == "x":
            out += [b"proc main() is 0(" + t + b")\n", b"val a = " + t + b";\nproc main() is skip\n", b"proc main() is skip\n" + t]
        else:
            out += [b"LDAC " + t + b"\n", b"BR " + t + b"\n", t + b"\n", b"LDAC 1 # " + t + b"\nOPR " + t + b"\n"]
    return [("echoed-line", d) for d in out]


def _cli_one(args):
    cli_san, d, k, cls, data, env = args
    src = os.path.join(d, "in%d.src" % k)
    outp = os.path.join(d, "out%d.bin" % k)
    open(src, "wb").write(data)
    try:
        r = subprocess.run([cli_san, src, "-o", outp], cwd=d, env=env, stdout=subprocess.PIPE, stderr=subprocess.PIPE, timeout=30)
        res = (r.returncode, r.stderr.decode("latin-1"), os.path.exists(outp))
    except subprocess.TimeoutExpired:
        res = None
    for f in (src, outp):
        if os.path.exists(f):
            os.unlink(f)
    return cls, data, res


def cli_sample(v, which, cli_san, n, rnd, corpus):
    """A sample through the real main() (argument handling and its own catch logic), sanitizer build: generated cases
    plus the echoed-line family."""
    from concurrent.futures import ThreadPoolExecutor
    d = common.scratch("fzcli")
    env = dict(os.environ)
    env["ASAN_OPTIONS"] = "detect_leaks=0:abort_on_error=0:exitcode=66"
    env["UBSAN_OPTIONS"] = "print_stacktrace=1:halt_on_error=1:exitcode=67"
    items = echo_family(which)
    for i in range(n):
        cls, data = (bytegen.x_case if which == "x" else bytegen.asm_case)(rnd, corpus)
        items.append((cls, data[:4096]))
    with ThreadPoolExecutor(max_workers=common.NCPU) as ex:
        results = list(ex.map(_cli_one, [(cli_san, d, k, cls, data, env) for k, (cls, data) in enumerate(items)]))
    for cls, data, res in results:
        if res is None:
            v.violation("cli:hang", {"class": cls, "input_hex": data.hex()})
            continue
        rc, err, wrote = res
        v.cov["evaluations"] += 1
        v.count("cli_sample_runs")
        if cls == "echoed-line":
            v.count("cli_echoed_line_cases")
        if rc < 0 or rc in (66, 67) or "runtime error:" in err or "AddressSanitizer" in err:
            v.violation("cli:" + key_of("exit %s" % rc, err), {"class": cls, "input_hex": data.hex(), "report": err[-1200:]})
        elif rc == 0 and not wrote:
            v.violation("cli:status-0-without-output", {"class": cls, "input_hex": data.hex(), "stderr": err[:300]})
        elif rc != 0 and (wrote or not err.strip()):
            v.violation("cli:rejected-uncleanly", {"class": cls, "input_hex": data.hex(), "wrote": wrote, "stderr": err[:300]})
    shutil.rmtree(d, ignore_errors=True)


def memcheck_worker(job):
    tool, items = job
    bad = []
    n = 0
    for cls, data in items:
        d = common.scratch("fzvg")
        src = os.path.join(d, "in.src")
        open(src, "wb").write(data)
        try:
            r = subprocess.run(["valgrind", "-q", "--error-exitcode=77", tool, src, "-o", os.path.join(d, "o.bin")], cwd=d,
                               stdout=subprocess.PIPE, stderr=subprocess.PIPE, timeout=150)
            n += 1
            if r.returncode == 77 or b"ninitialised" in r.stderr or b"Invalid read" in r.stderr or b"Invalid write" in r.stderr:
                first = [l for l in r.stderr.decode("latin-1").splitlines() if "==" in l][:8]
                bad.append(("memcheck", {"class": cls, "input_hex": data.hex(), "report": first}))
        except subprocess.TimeoutExpired:
            bad.append(("memcheck:hang", {"class": cls, "input_hex": data.hex()}))
        shutil.rmtree(d, ignore_errors=True)
    return n, bad


def _confirm_one(args):
    which, exe, data = args
    f = {"src": data}
    if which == "x":
        f["want"] = "noexec"
    d = common.scratch("fzto")
    common.write_cases(os.path.join(d, "in"), [(0, f)])
    env = dict(os.environ)
    env["VERIF_CASE_TIMEOUT_MS"] = "80000"
    try:
        subprocess.run([exe, "cases", os.path.join(d, "in"), os.path.join(d, "out")], cwd=d, timeout=700, env=env,
                       stdout=subprocess.DEVNULL, stderr=subprocess.DEVNULL)
        hang = '"status":"timeout"' in open(os.path.join(d, "out")).read()
    except subprocess.TimeoutExpired:
        hang = True
    shutil.rmtree(d, ignore_errors=True)
    return data, hang


def confirm_timeouts(v, which, exe, datas):
    """Re-run watchdog firings alone with a 10x budget: reproduced -> hang, else inconclusive."""
    from concurrent.futures import ThreadPoolExecutor
    sel = sorted(set(datas), key=len)[:8]
    with ThreadPoolExecutor(max_workers=8) as ex:
        for data, hang in ex.map(_confirm_one, [(which, exe, data) for data in sel]):
            if hang:
                v.violation("hang", {"input_hex": data.hex(), "input_latin1": data.decode("latin-1")[:2000]})
            else:
                v.count("watchdog_not_reproduced")


def libfuzzer_stage(v, which, fz_exe, san_exe, corpus, seconds):
    """Coverage-guided stage (thorough tier): libFuzzer in fork mode; every artifact it leaves is re-run alone
    in the sanitizer harness, which is the only thing believed."""
    d = common.scratch("libfuzzer")
    cdir = os.path.join(d, "corpus")
    adir = os.path.join(d, "art")
    os.makedirs(cdir)
    os.makedirs(adir)
    for i, text in enumerate(corpus[:400]):
        open(os.path.join(cdir, "c%04d" % i), "wb").write(text.encode("latin-1")[:4096])
    toks = bytegen.X_TOKENS if which == "x" else bytegen.ASM_TOKENS
    with open(os.path.join(d, "dict"), "w") as f:
        for t in toks:
            f.write('"%s"\n' % "".join("\\x%02x" % b for b in t.encode("latin-1")))
    env = dict(os.environ)
    env["ASAN_OPTIONS"] = "detect_leaks=0:quarantine_size_mb=8:allocator_may_return_null=1"
    cmd = [fz_exe, cdir, "-fork=%d" % common.NCPU, "-ignore_crashes=1", "-ignore_timeouts=1", "-ignore_ooms=1", "-max_total_time=%d" % seconds,
           "-max_len=4096", "-timeout=25", "-rss_limit_mb=3000", "-dict=" + os.path.join(d, "dict"), "-artifact_prefix=" + adir + "/"]
    try:
        p = subprocess.run(cmd, cwd=d, env=env, stdout=subprocess.PIPE, stderr=subprocess.PIPE, timeout=seconds + 900)
        log = p.stderr.decode("latin-1")
    except subprocess.TimeoutExpired as e:
        log = (e.stderr or b"").decode("latin-1")
        v.inconclusive.append("libFuzzer stage did not stop in time")
    last = [l for l in log.splitlines() if " cov: " in l and l.startswith("#")]
    if last:
        m = re.match(r"#(\d+): cov: (\d+) ft: (\d+) corp: (\d+)", last[-1])
        if m:
            v.cov["libfuzzer_executions"] = int(m.group(1))
            v.cov["libfuzzer_edge_coverage"] = int(m.group(2))
            v.cov["libfuzzer_features"] = int(m.group(3))
            v.cov["libfuzzer_corpus"] = int(m.group(4))
            v.cov["evaluations"] += int(m.group(1))
    arts = sorted(os.listdir(adir))
    v.cov["libfuzzer_artifacts"] = len(arts)
    cases = []
    for i, a in enumerate(arts[:2000]):
        data = open(os.path.join(adir, a), "rb").read()[:4096]
        f = {"src": data}
        if which == "x":
            f["want"] = "noexec"
        cases.append((i, f))
    if cases:
        res = common.run_harness(san_exe, cases, args=["cases"], tag="fzart")
        for i, f in cases:
            oc, key, detail = classify(which, res[str(i)])
            if oc == "violation":
                v.violation(key, {"class": "libfuzzer-artifact", "input_hex": f["src"].hex(), "report": detail})
            elif oc == "timeout":
                v.count("libfuzzer_artifact_timeouts")
            else:
                v.count("libfuzzer_artifacts_not_reproduced")
    shutil.rmtree(d, ignore_errors=True)


def fixed_cases(v, which, exe, items):
    """Deterministic case list (e.g. the complete kind x use matrix): every case is classified like a generated one."""
    cases = []
    for i, (cls, data) in enumerate(items):
        f = {"src": data[:4096]}
        if which == "x":
            f["want"] = "noexec"
        cases.append((i, f))
    res = common.run_harness(exe, cases, args=["cases"], tag="fzfix")
    for i, (cls, data) in enumerate(items):
        oc, key, detail = classify(which, res[str(i)])
        if oc == "rejected":
            pk = position_rule(res[str(i)]["out"])
            if pk:
                v.violation(pk, {"class": cls, "input_latin1": data.decode("latin-1")[:4096], "diagnostic": res[str(i)]["out"].get("err")})
            v.hist("rejections_by_error_class", res[str(i)]["out"].get("errclass") or "?", 1)
        v.cov["evaluations"] += 1
        v.hist("cases_by_generator_class", cls + "(enumerated)", 1)
        if oc == "violation":
            v.violation(key, {"class": cls, "input_latin1": data.decode("latin-1")[:4096], "input_hex": data.hex()[:8192], "report": detail})
        elif oc == "accepted":
            v.count("accepted")
        elif oc == "rejected":
            v.count("rejected")
