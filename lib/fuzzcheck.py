"""Shared machinery of C09 (xcmp) and C10 (hexasm): hostile inputs through the
sanitizer builds, outcome classification, violation keys."""
import os
import random
import re
import shutil
import subprocess

from lib import bytegen, common

FRAME = re.compile(r"#\d+ 0x[0-9a-f]+ in (.+?) (/[^\s:]+):(\d+)")
UB = re.compile(r"runtime error: (.*)")
ASAN = re.compile(r"ERROR: AddressSanitizer: ([A-Za-z0-9_-]+)")


def key_of(status, err):
    """(kind, innermost frame inside the repo sources, function) -> key string"""
    kind = None
    m = UB.search(err)
    if m:
        msg = m.group(1)
        for pat, k in (("signed integer overflow", "ub:signed-overflow"), ("left shift of negative", "ub:shift-negative"),
                       ("shift exponent", "ub:shift-exponent"), ("out of bounds", "ub:bounds"), ("null pointer", "ub:null"),
                       ("misaligned", "ub:misaligned"), ("negation of", "ub:negation-overflow"), ("not a valid value", "ub:invalid-value"),
                       ("downcast", "ub:bad-cast"), ("member call on", "ub:bad-member-call")):
            if pat in msg:
                kind = k
                break
        kind = kind or "ub:other"
    m = ASAN.search(err)
    if m and not kind:
        kind = "asan:" + m.group(1)
    if not kind and "Assertion" in err:
        kind = "assert"
    if not kind and "_GLIBCXX_ASSERT" in err or (not kind and "__glibcxx_assert" in err):
        kind = "glibcxx-assert"
    if not kind:
        kind = status.replace(" ", "")
    func = "?"
    for fm in FRAME.finditer(err):
        path = fm.group(2)
        if path.startswith(common.REPO + "/") or "/harness/" not in path and os.path.basename(path) in ("xcmp.hpp", "hexasm.hpp", "hexsim.hpp", "util.hpp"):
            f = fm.group(1)
            f = re.sub(r"\(.*", "", f)
            f = re.sub(r"<.*?>", "", f)
            func = f.split("::")[-2] + "::" + f.split("::")[-1] if f.count("::") >= 1 else f
            break
    if func == "?" and "Assertion" in err:
        m = re.search(r"Assertion `(.{0,60})", err)
        if m:
            func = re.sub(r"[^A-Za-z0-9_]+", "_", m.group(1))[:40]
    return "%s@%s" % (kind, func)


def classify(which, r):
    """-> (outcome, key or None, detail) outcome: accepted | rejected | violation | timeout"""
    st = r["status"]
    err = r["err"]
    o = r["out"]
    if st == "timeout":
        return "timeout", None, ""
    if st == "skipped":
        return "skipped", None, ""
    san = "runtime error:" in err or "AddressSanitizer" in err
    if st != "ok" or san or o is None:
        return "violation", key_of(st, err), err[-1500:]
    if o.get("ok"):
        if not o.get("file") or len(o["file"]) < 8:
            return "violation", "accepted-without-image", ""
        if which == "asm" and not o.get("reemit_same", True):
            return "violation", "reemit-differs", ""
        return "accepted", None, ""
    et = o.get("errtype")
    if et in ("Error", "std::exception"):
        if o.get("wrote"):
            return "violation", "rejected-but-wrote-output", o.get("err", "")
        if not o.get("err"):
            return "violation", "rejected-without-message", ""
        return "rejected", None, o.get("err", "")
    if et == "layout-runaway":
        return "violation", "layout-does-not-terminate", ""
    return "violation", "non-std-exception", o.get("err", "")


def worker(job):
    which, wseed, n, exe, corpus = job
    rnd = random.Random(wseed)
    cases, meta = [], []
    for i in range(n):
        sub = rnd.randrange(1 << 62)
        r = random.Random(sub)
        cls, data = (bytegen.x_case if which == "x" else bytegen.asm_case)(r, corpus)
        data = data[:4096]
        f = {"src": data}
        if which == "x":
            f["want"] = "noexec"
        cases.append((i, f))
        meta.append((cls, data))
    res = common.run_harness_single(exe, cases, args=["cases"], tag="fz")
    out = {"n": n, "classes": {}, "accepted": 0, "rejected": 0, "located": 0, "diags": {}, "viol": [], "timeouts": [], "san_blocks": 0,
           "distinct": set()}
    for i, (cls, data) in enumerate(meta):
        r = res[str(i)]
        oc, key, detail = classify(which, r)
        out["classes"][cls] = out["classes"].get(cls, 0) + 1
        out["distinct"].add(hash(data))
        if oc == "accepted":
            out["accepted"] += 1
        elif oc == "rejected":
            out["rejected"] += 1
            if r["out"].get("located"):
                out["located"] += 1
            d = re.sub(r"[0-9]+", "N", detail)[:50]
            d = re.sub(r"(symbol|label|name|character) \S+", r"\1 <x>", d)
            out["diags"][d] = out["diags"].get(d, 0) + 1
        elif oc == "timeout":
            out["timeouts"].append(data)
        elif oc == "skipped":
            out["skipped"] = out.get("skipped", 0) + 1
        else:
            if "runtime error:" in r["err"] or "AddressSanitizer" in r["err"]:
                out["san_blocks"] += 1
            out["viol"].append((key, {"class": cls, "input_latin1": data.decode("latin-1")[:4096], "input_hex": data.hex()[:8192],
                                      "report": detail}))
    out["distinct"] = len(out["distinct"])
    return out


def cli_sample(v, which, cli_san, n, rnd, corpus):
    """A sample through the real main() (argument handling and its own catch logic), sanitizer build."""
    d = common.scratch("fzcli")
    env = dict(os.environ)
    env["ASAN_OPTIONS"] = "detect_leaks=0:abort_on_error=0:exitcode=66"
    env["UBSAN_OPTIONS"] = "print_stacktrace=1:halt_on_error=1:exitcode=67"
    for i in range(n):
        cls, data = (bytegen.x_case if which == "x" else bytegen.asm_case)(rnd, corpus)
        data = data[:4096]
        src = os.path.join(d, "in.src")
        open(src, "wb").write(data)
        outp = os.path.join(d, "out.bin")
        if os.path.exists(outp):
            os.unlink(outp)
        try:
            r = subprocess.run([cli_san, src, "-o", outp], cwd=d, env=env, stdout=subprocess.PIPE, stderr=subprocess.PIPE, timeout=30)
        except subprocess.TimeoutExpired:
            v.violation("cli:hang", {"input_hex": data.hex()})
            continue
        v.cov["evaluations"] += 1
        v.count("cli_sample_runs")
        err = r.stderr.decode("latin-1")
        wrote = os.path.exists(outp)
        if r.returncode < 0 or r.returncode in (66, 67) or "runtime error:" in err or "AddressSanitizer" in err:
            v.violation("cli:" + key_of("exit %s" % r.returncode, err), {"class": cls, "input_hex": data.hex(), "report": err[-1200:]})
        elif r.returncode == 0 and not wrote:
            v.violation("cli:status-0-without-output", {"class": cls, "input_hex": data.hex(), "stderr": err[:300]})
        elif r.returncode != 0 and (wrote or not err.strip()):
            v.violation("cli:rejected-uncleanly", {"class": cls, "input_hex": data.hex(), "wrote": wrote, "stderr": err[:300]})
    shutil.rmtree(d, ignore_errors=True)


def memcheck_worker(job):
    tool, items = job
    bad = []
    n = 0
    for cls, data in items:
        d = common.scratch("fzvg")
        src = os.path.join(d, "in.src")
        open(src, "wb").write(data)
        try:
            r = subprocess.run(["valgrind", "-q", "--error-exitcode=77", tool, src, "-o", os.path.join(d, "o.bin")], cwd=d,
                               stdout=subprocess.PIPE, stderr=subprocess.PIPE, timeout=150)
            n += 1
            if r.returncode == 77 or b"ninitialised" in r.stderr or b"Invalid read" in r.stderr or b"Invalid write" in r.stderr:
                first = [l for l in r.stderr.decode("latin-1").splitlines() if "==" in l][:8]
                bad.append(("memcheck", {"class": cls, "input_hex": data.hex(), "report": first}))
        except subprocess.TimeoutExpired:
            bad.append(("memcheck:hang", {"class": cls, "input_hex": data.hex()}))
        shutil.rmtree(d, ignore_errors=True)
    return n, bad


def confirm_timeouts(v, which, exe, datas):
    """Re-run watchdog firings alone with a 10x budget: reproduced -> hang, else inconclusive."""
    for data in datas[:20]:
        f = {"src": data}
        if which == "x":
            f["want"] = "noexec"
        d = common.scratch("fzto")
        common.write_cases(os.path.join(d, "in"), [(0, f)])
        try:
            subprocess.run([exe, "cases", os.path.join(d, "in"), os.path.join(d, "out")], cwd=d, timeout=700,
                           stdout=subprocess.DEVNULL, stderr=subprocess.DEVNULL)
            line = open(os.path.join(d, "out")).read()
            if '"status":"timeout"' in line:
                v.violation("hang", {"input_hex": data.hex()})
            else:
                v.count("watchdog_not_reproduced")
        except subprocess.TimeoutExpired:
            v.violation("hang", {"input_hex": data.hex()})
        shutil.rmtree(d, ignore_errors=True)


def libfuzzer_stage(v, which, fz_exe, san_exe, corpus, seconds):
    """Coverage-guided stage (thorough tier): libFuzzer in fork mode; every artifact it leaves is re-run alone
    in the sanitizer harness, which is the only thing believed."""
    d = common.scratch("libfuzzer")
    cdir = os.path.join(d, "corpus")
    adir = os.path.join(d, "art")
    os.makedirs(cdir)
    os.makedirs(adir)
    for i, text in enumerate(corpus[:400]):
        open(os.path.join(cdir, "c%04d" % i), "wb").write(text.encode("latin-1")[:4096])
    toks = bytegen.X_TOKENS if which == "x" else bytegen.ASM_TOKENS
    with open(os.path.join(d, "dict"), "w") as f:
        for t in toks:
            f.write('"%s"\n' % "".join("\\x%02x" % b for b in t.encode("latin-1")))
    env = dict(os.environ)
    env["ASAN_OPTIONS"] = "detect_leaks=0:quarantine_size_mb=8:allocator_may_return_null=1"
    cmd = [fz_exe, cdir, "-fork=%d" % common.NCPU, "-ignore_crashes=1", "-ignore_timeouts=1", "-ignore_ooms=1", "-max_total_time=%d" % seconds,
           "-max_len=4096", "-timeout=25", "-rss_limit_mb=3000", "-dict=" + os.path.join(d, "dict"), "-artifact_prefix=" + adir + "/"]
    try:
        p = subprocess.run(cmd, cwd=d, env=env, stdout=subprocess.PIPE, stderr=subprocess.PIPE, timeout=seconds + 900)
        log = p.stderr.decode("latin-1")
    except subprocess.TimeoutExpired as e:
        log = (e.stderr or b"").decode("latin-1")
        v.inconclusive.append("libFuzzer stage did not stop in time")
    last = [l for l in log.splitlines() if " cov: " in l and l.startswith("#")]
    if last:
        m = re.match(r"#(\d+): cov: (\d+) ft: (\d+) corp: (\d+)", last[-1])
        if m:
            v.cov["libfuzzer_executions"] = int(m.group(1))
            v.cov["libfuzzer_edge_coverage"] = int(m.group(2))
            v.cov["libfuzzer_features"] = int(m.group(3))
            v.cov["libfuzzer_corpus"] = int(m.group(4))
            v.cov["evaluations"] += int(m.group(1))
    arts = sorted(os.listdir(adir))
    v.cov["libfuzzer_artifacts"] = len(arts)
    cases = []
    for i, a in enumerate(arts[:2000]):
        data = open(os.path.join(adir, a), "rb").read()[:4096]
        f = {"src": data}
        if which == "x":
            f["want"] = "noexec"
        cases.append((i, f))
    if cases:
        res = common.run_harness(san_exe, cases, args=["cases"], tag="fzart")
        for i, f in cases:
            oc, key, detail = classify(which, res[str(i)])
            if oc == "violation":
                v.violation(key, {"class": "libfuzzer-artifact", "input_hex": f["src"].hex(), "report": detail})
            elif oc == "timeout":
                v.count("libfuzzer_artifact_timeouts")
            else:
                v.count("libfuzzer_artifacts_not_reproduced")
    shutil.rmtree(d, ignore_errors=True)


def fixed_cases(v, which, exe, items):
    """Deterministic case list (e.g. the complete kind x use matrix): every case is classified like a generated one."""
    cases = []
    for i, (cls, data) in enumerate(items):
        f = {"src": data[:4096]}
        if which == "x":
            f["want"] = "noexec"
        cases.append((i, f))
    res = common.run_harness(exe, cases, args=["cases"], tag="fzfix")
    for i, (cls, data) in enumerate(items):
        oc, key, detail = classify(which, res[str(i)])
        v.cov["evaluations"] += 1
        v.hist("cases_by_generator_class", cls + "(enumerated)", 1)
        if oc == "violation":
            v.violation(key, {"class": cls, "input_latin1": data.decode("latin-1")[:4096], "input_hex": data.hex()[:8192], "report": detail})
        elif oc == "accepted":
            v.count("accepted")
        elif oc == "rejected":
            v.count("rejected")
