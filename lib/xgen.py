"""E4 (X part): generators of X programs as ASTs (lib/xref.py forms).

The random generator builds programs that are well-defined by construction
most of the time (variables initialised before use, subscripts from bounded
expressions, boolean-typed conditions, call graph a DAG plus bounded
recursion); the reference interpreter is still the judge and discards the
rest.  Shape matrices enumerate operand kinds systematically."""
import itertools

from lib import xref

SMALL = [0, 1, 2, 3, 5, 7, 9, 10, 15, 16, 17, 31, 100, 127, 128, 200, 255]
MEDIUM = [256, 257, 1000, 4095, 4096, 4097, 40000, 65534, 65535]
POOL = [65536, 65537, 70000, 100000, 1 << 20, 1 << 24, (1 << 30) - 1, 1 << 30, 1234567, 0x7FFF0000 >> 4]
LONGNAMES = ["accumulatetotal", "doublethevalue", "emitdigit_now", "a_rather_long_procedure_name", "x234567890123", "twelve_chars",
             "eleven_char", "ten_chars_", "nine_char", "thirteen_chars", "yet_another_identifier_that_is_long", "q_______________q",
             "ProcedureWithCapitals", "f1234567890", "g12345678901", "h123456789012", "i1234567890123", "k", "m0", "n_1", "p__2", "r___3",
             "s____4", "t_____5"]
NAMESETS = [
    LONGNAMES,
    ["a", "b", "c", "d", "e", "f", "g", "h", "i", "j", "k", "m", "n", "p", "q", "r", "s", "t", "u", "v", "w", "x", "y", "z"],
    ["lab0", "lab1", "lab2", "lab3", "lab4", "lab5", "lab6", "lab7", "lab8", "lab9", "lab10", "lab11", "lab12", "lab13",
     "lab14", "lab15", "lab16", "lab17", "lab18", "lab19", "lab20", "lab21", "lab22", "lab23"],
    ["start", "_x", "exit_", "Main", "mainx", "iff", "thenn", "whiles", "dox", "vals", "vars", "arrays", "procx", "funcs",
     "iss", "skipp", "stopp", "truee", "falsee", "returnn", "andd", "orr", "elsee", "x_1"],
    ["foo", "bar", "baz", "qux", "foo_BAR", "Xy", "tmp", "acc", "cnt", "idx", "len", "ptr", "val1", "var2", "arr3", "fn4",
     "p5", "q6", "r7", "s8", "t9", "u10", "v11", "w12"],
]


class G:
    def __init__(self, rnd, size=1.0, style=None):
        self.r = rnd
        self.size = size
        self.style = style or {}
        names = list(rnd.choice(NAMESETS))
        if names[0] == "start":
            names = [n.replace("_x", "sx") for n in names]
        rnd.shuffle(names)
        self.pool = names
        self.used = set()
        self.gvals = {}       # name -> value
        self.gvars = []
        self.garrays = {}     # name -> length
        self.procs = []       # dicts with meta
        self.sysnames = {}
        self.files_in = {}
        self.uses_input = False
        self.localpool = set()

    def fresh(self, hint=None):
        for n in self.pool:
            if n not in self.used and n not in xref.KEYWORDS:
                self.used.add(n)
                return n
        i = len(self.used)
        while True:
            n = "n%d_" % i
            i += 1
            if n not in self.used:
                self.used.add(n)
                return n

    def local_name(self, m):
        """Name for a formal or local of procedure meta m: sometimes one that shadows a global or repeats a name
        used locally in another procedure (scoping is part of C01)."""
        scope = m.setdefault("scope", set())
        if self.r.random() < 0.3:
            cands = [n for n in list(self.gvars) + [k for k in self.gvals if k not in self.sysnames.values()] + list(self.garrays) +
                     sorted(self.localpool) if n not in scope and n not in xref.KEYWORDS]
            if cands:
                n = self.r.choice(cands)
                scope.add(n)
                return n
        n = self.fresh()
        scope.add(n)
        self.localpool.add(n)
        return n

    # ---------------------------------------------------------------- constants
    def literal(self, v):
        r = self.r.random()
        if 0 <= v < 256 and v >= 32 and v < 127 and chr(v) not in "\\'\"" and r < 0.15:
            return ("chr", v)
        if v >= 0 and r < 0.25:
            return ("hex", v)
        return ("num", v)

    def small_const(self):
        r = self.r.random()
        if r < 0.55:
            v = self.r.choice(SMALL)
        elif r < 0.8:
            v = self.r.choice(MEDIUM)
        elif r < 0.93:
            v = self.r.choice(POOL)
        else:
            v = self.r.randrange(0, 1 << 20)
        if self.r.random() < 0.25:
            v = -v
        return v

    def const_expr(self, depth=0):
        """-> (expr, value) constant expression over literals and global vals"""
        r = self.r.random()
        if depth >= 2 or r < 0.5:
            if self.gvals and self.r.random() < 0.3:
                n = self.r.choice(sorted(self.gvals))
                return ("var", n), self.gvals[n]
            v = self.small_const()
            return self.literal(v), v
        if r < 0.6:
            e, v = self.const_expr(depth + 1)
            if v == xref.INT_MIN:
                return e, v
            return ("un", "-", e), -v
        op = self.r.choice(["+", "+", "-", "-", "=", "~=", "<", "<=", ">", ">="])
        a, av = self.const_expr(depth + 1)
        b, bv = self.const_expr(depth + 1)
        val = {"+": av + bv, "-": av - bv, "=": int(av == bv), "~=": int(av != bv), "<": int(av < bv),
               "<=": int(av <= bv), ">": int(av > bv), ">=": int(av >= bv)}[op]
        return ("bin", op, a, b), val

    # ---------------------------------------------------------------- program
    def program(self):
        r = self.r
        globs = []
        if r.random() < 0.6:
            for nm, v in (("put", 1), ("get", 2), ("exit", 0)):
                if r.random() < 0.8:
                    n = nm if nm not in self.used and r.random() < 0.7 else self.fresh()
                    self.used.add(n)
                    self.sysnames[v] = n
                    self.gvals[n] = v
                    globs.append(("val", n, ("num", v)))
        for _ in range(r.choice([0, 0, 1, 1, 2, 3])):
            n = self.fresh()
            e, v = self.const_expr()
            if not (xref.INT_MIN < v <= xref.INT_MAX):
                e, v = ("num", 7), 7
            globs.append(("val", n, e))
            self.gvals[n] = v
        for _ in range(r.choice([0, 1, 1, 2, 3, 4])):
            n = self.fresh()
            self.gvars.append(n)
            globs.append(("var", n))
        for _ in range(r.choice([0, 0, 1, 1, 2, 3])):
            n = self.fresh()
            ln = r.choice([1, 2, 2, 3, 4, 5, 8, 10])
            small = [k for k, v in self.gvals.items() if v == ln]
            if small and r.random() < 0.4:
                le = ("var", small[0])
            elif r.random() < 0.2 and ln > 2:
                le = ("bin", "+", ("num", ln - 1), ("num", 1))
            else:
                le = ("num", ln)
            self.garrays[n] = ln
            globs.append(("array", n, le))
        r.shuffle(globs)
        # vals must be declared before use: stable-partition them to keep dependency order
        order = {n: i for i, n in enumerate(self.gvals)}
        vals = sorted([g for g in globs if g[0] == "val"], key=lambda g: order[g[1]])
        rest = [g for g in globs if g[0] != "val"]
        globs = []
        vi = 0
        for g in rest:
            while vi < len(vals) and r.random() < 0.5:
                globs.append(vals[vi])
                vi += 1
            globs.append(g)
        globs = vals[vi:] + globs if r.random() < 0.5 else globs + vals[vi:]
        # array lengths given by val names need the val first
        globs = self.fix_val_order(globs)

        nhelp = r.choice([0, 1, 2, 2, 3, 4, 5, 6]) if self.size >= 1 else r.choice([0, 1, 2])
        metas = []
        for i in range(nhelp):
            metas.append(self.proc_meta(i))
        if r.random() < 0.35:
            metas.append(self.rec_meta(len(metas)))
        if r.random() < 0.2:
            a = self.rec_meta(len(metas))
            b = self.rec_meta(len(metas) + 1)
            b["fm"] = b["fm"][:1]
            a["mutual"], b["mutual"] = b, a
            metas += [a, b]
        self.procs = metas
        main = {"kind": "proc", "name": "main", "formals": [], "locals": [], "body": None, "idx": -1, "fm": []}
        bodies = []
        for m in metas:
            if m.get("rec"):
                bodies.append(self.rec_body(m))
            else:
                bodies.append(self.proc_body(m))
        mainp = self.main_body(main)
        procs = [self.finish(m, b) for m, b in zip(metas, bodies)] + [mainp]
        r.shuffle(procs)
        return {"globals": globs, "procs": procs}

    def fix_val_order(self, globs):
        out, pending = [], list(globs)
        declared = set()
        progress = True
        while pending and progress:
            progress = False
            for g in list(pending):
                needs = self.names_in(g[2]) if g[0] in ("val", "array") else set()
                if needs <= declared:
                    out.append(g)
                    pending.remove(g)
                    if g[0] == "val":
                        declared.add(g[1])
                    progress = True
        return out + pending

    def names_in(self, e):
        k = e[0]
        if k == "var":
            return {e[1]}
        if k == "un":
            return self.names_in(e[2])
        if k == "bin":
            return self.names_in(e[2]) | self.names_in(e[3])
        return set()

    def finish(self, m, body):
        return {"kind": m["kind"], "name": m["name"], "formals": [(k, n) for k, n, _ in m["fm"]],
                "locals": m["locals"], "body": body}

    def proc_meta(self, idx):
        r = self.r
        kind = r.choice(["proc", "func", "func"])
        nf = r.choice([0, 1, 1, 2, 2, 3, 4]) if r.random() < 0.93 else r.choice([5, 7, 10])
        fm = []
        m = {"kind": kind, "name": self.fresh(), "fm": fm, "idx": idx, "locals": [], "impure": r.random() < 0.3}
        for _ in range(nf):
            if r.random() < 0.25 and (self.garrays or True):
                fm.append(("array", self.local_name(m), {"minlen": r.choice([1, 1, 2, 3]), "writable": r.random() < 0.4}))
            else:
                fm.append(("val", self.local_name(m), {}))
        return m

    def rec_meta(self, idx):
        m = {"kind": "func", "name": self.fresh(), "fm": [], "idx": idx, "locals": [], "rec": True, "impure": False}
        m["fm"].append(("val", self.local_name(m), {}))
        if self.r.random() < 0.5:
            m["fm"].append(("val", self.local_name(m), {}))
        return m

    # ---------------------------------------------------------------- contexts
    def ctx(self, m):
        c = {"m": m, "ints": [], "bools": [], "arrays": {}, "locals": [], "depth": 0, "loopvars": {}, "assigned": set()}
        for k, n, a in m["fm"]:
            if k == "val":
                c["ints"].append(n)
            else:
                c["arrays"][n] = (a["minlen"], a["writable"], True)
        for n, ln in self.garrays.items():
            if n not in c["arrays"] and n not in [x[1] for x in m["fm"]]:
                c["arrays"][n] = (ln, True, False)
        return c

    # ---------------------------------------------------------------- expressions
    def int_leaf(self, c):
        r = self.r
        x = r.random()
        names = [n for n in c["ints"]] + [n for n in c["locals"] if n in c["assigned"]] + \
                [n for n in self.gvars if n not in self.shadow(c)]
        if x < 0.35 and names:
            return ("var", r.choice(names))
        if x < 0.45 and self.gvals:
            cands = [n for n in self.gvals if n not in self.shadow(c)]
            if cands:
                return ("var", r.choice(cands))
        if x < 0.6 and c["arrays"]:
            return self.sub_expr(c)
        v = self.small_const()
        return self.literal(v) if v >= 0 else ("num", v)

    def shadow(self, c):
        return set(c["locals"]) | {n for _, n, _ in c["m"]["fm"]}

    def sub_expr(self, c, for_write=False):
        r = self.r
        cands = [(n, a) for n, a in c["arrays"].items() if (a[1] or not for_write)]
        if not cands:
            return None
        n, (ln, _, _) = r.choice(cands)
        x = r.random()
        if x < 0.5 or ln == 1:
            idx = ("num", r.randrange(ln))
        elif x < 0.7 and c["loopvars"]:
            ok = [lv for lv, bound in c["loopvars"].items() if bound <= ln]
            idx = ("var", r.choice(ok)) if ok else ("num", r.randrange(ln))
        elif x < 0.85:
            k = r.randrange(ln)
            a = r.randrange(0, k + 1)
            idx = ("bin", "+", ("num", a), ("num", k - a)) if r.random() < 0.5 else ("bin", "-", ("num", k + 3), ("num", 3))
        else:
            f = self.pure_identity_call(c, r.randrange(ln))
            idx = f if f else ("num", r.randrange(ln))
        return ("sub", n, idx)

    def pure_identity_call(self, c, k):
        """call of a helper `func id(val x) is return x`-like function if one exists"""
        for m in self.callable(c):
            if m.get("identity"):
                return ("call", m["name"], [("num", k)])
        return None

    def callable(self, c):
        i = c["m"]["idx"]
        if i == -1:
            return list(self.procs)
        return [m for m in self.procs if m["idx"] > i]

    def int_expr(self, c, depth=0):
        r = self.r
        x = r.random()
        lim = 3 if self.size >= 1 else 2
        if depth >= lim or x < 0.3:
            return self.int_leaf(c)
        if x < 0.62:
            op = r.choice(["+", "+", "-"])
            a = self.int_expr(c, depth + 1)
            b = self.int_expr(c, depth + 1)
            if op == "+" and r.random() < 0.3:
                b = ("bin", "+", b, self.int_expr(c, depth + 2))
            return ("bin", op, a, b)
        if x < 0.68:
            return ("un", "-", self.int_expr(c, depth + 1))
        if x < 0.86:
            call = self.func_call(c, depth)
            if call:
                return call
            return self.int_leaf(c)
        if x < 0.92 and self.want_input(c):
            return self.get_call(c)
        if x < 0.96:
            return self.bool_expr(c, depth + 1)      # relational value used as an integer (0/1)
        return self.int_leaf(c)

    def want_input(self, c):
        return True

    def get_call(self, c):
        r = self.r
        self.uses_input = True
        if r.random() < 0.8:
            s = ("num", r.choice([0, 0, 0, 1, 255]))
        else:
            f = r.choice([4, 5])
            self.files_in.setdefault(f, bytes(r.randrange(256) for _ in range(r.randrange(0, 6))))
            s = ("num", f * 256 + r.randrange(256))
        if 2 in self.sysnames and r.random() < 0.7:
            return ("call", self.sysnames[2], [s])
        return ("sys", 2, [s])

    def bool_expr(self, c, depth=0):
        r = self.r
        x = r.random()
        if depth >= 3 or x < 0.55:
            op = r.choice(["=", "~=", "<", "<=", ">", ">="])
            return ("bin", op, self.int_expr(c, depth + 1), self.int_expr(c, depth + 1))
        if x < 0.65:
            return ("bool", r.random() < 0.5)
        if x < 0.75:
            return ("un", "~", self.bool_expr(c, depth + 1))
        op = r.choice(["and", "or"])
        a = self.bool_expr(c, depth + 1)
        b = self.bool_expr(c, depth + 1)
        if r.random() < 0.3:
            b = ("bin", op, b, self.bool_expr(c, depth + 2))
        return ("bin", op, a, b)

    def actuals(self, c, m, depth):
        r = self.r
        args = []
        for k, n, a in m["fm"]:
            if k == "val":
                args.append(self.int_expr(c, depth + 1))
            else:
                cands = [an for an, (ln, wr, isf) in c["arrays"].items() if ln >= a["minlen"] and (wr or not a["writable"])]
                if not a["writable"] and (r.random() < 0.35 or not cands):
                    nchars = max(0, a["minlen"] * 4 - 1) + r.randrange(0, 6)
                    args.append(("str", self.rand_string(nchars)))
                elif cands:
                    args.append(("var", r.choice(cands)))
                else:
                    return None
        return args

    def rand_string(self, n):
        r = self.r
        alphabet = b"abcXYZ 019_-+\n\t\\\"'\r!~\x80\xe9\xfe"
        return bytes(r.choice(alphabet) for _ in range(n))

    def func_call(self, c, depth):
        cands = [m for m in self.callable(c) if m["kind"] == "func"]
        if not cands:
            return None
        m = self.r.choice(cands)
        if m.get("rec"):
            args = [("num", self.r.randrange(0, 6))] + [self.int_expr(c, depth + 1) for _ in m["fm"][1:]]
        else:
            args = self.actuals(c, m, depth)
            if args is None:
                return None
        return ("call", m["name"], args)

    # ---------------------------------------------------------------- statements
    def put_stmt(self, c):
        r = self.r
        x = r.random()
        if x < 0.7:
            s = ("num", r.choice([0, 0, 0, 0, 1, 255]))
        else:
            s = ("num", r.choice([1, 2, 3]) * 256 + r.choice([0, 0, 1, 255]))
        v = self.int_expr(c, 2) if r.random() < 0.6 else ("chr", r.choice(b"abcxyz019 "))
        if 1 in self.sysnames and r.random() < 0.7:
            return ("callst", self.sysnames[1], [v, s])
        return ("sysst", 1, [v, s])

    def exit_stmt(self, c):
        v = self.int_expr(c, 2)
        if 0 in self.sysnames and self.r.random() < 0.6:
            return ("callst", self.sysnames[0], [v])
        return ("sysst", 0, [v])

    def assign_stmt(self, c):
        r = self.r
        targets = [n for n in c["locals"] if n not in c["loopvars"]] + [n for n in self.gvars if n not in self.shadow(c)]
        if c["arrays"] and r.random() < 0.35:
            lhs = self.sub_expr(c, for_write=True)
            if lhs:
                return ("ass", lhs, self.int_expr(c, 1))
        if not targets:
            return ("skip",)
        n = r.choice(targets)
        st = ("ass", ("var", n), self.int_expr(c, 0))
        if n in c["locals"]:
            c["assigned"].add(n)
        return st

    def stmt(self, c, depth=0, budget=None):
        r = self.r
        x = r.random()
        if depth >= 3:
            x = x * 0.6
        if x < 0.34:
            return self.assign_stmt(c)
        if x < 0.48:
            return self.put_stmt(c)
        if x < 0.60:
            cands = [m for m in self.callable(c) if m["kind"] == "proc"]
            if cands:
                m = r.choice(cands)
                args = self.actuals(c, m, 1)
                if args is not None:
                    return ("callst", m["name"], args)
            return self.assign_stmt(c)
        if x < 0.62:
            return ("skip",)
        if x < 0.635:
            return self.exit_stmt(c) if r.random() < 0.7 else ("stop",)
        if x < 0.78:
            saved = set(c["assigned"])
            t = self.block(c, depth + 1, r.randrange(1, 4))
            c["assigned"] = set(saved)
            f = self.block(c, depth + 1, r.randrange(1, 3)) if r.random() < 0.6 else ("skip",)
            c["assigned"] = saved
            if r.random() < 0.1:
                t, f = ("skip",), t
            return ("if", self.bool_expr(c), t, f)
        if x < 0.90:
            return self.loop(c, depth)
        return self.block(c, depth + 1, r.randrange(1, 4))

    def loop(self, c, depth):
        r = self.r
        free = [n for n in c["locals"] if n not in c["loopvars"]]
        if not free:
            return self.assign_stmt(c)
        i = r.choice(free)
        k = r.choice([0, 1, 2, 3, 3, 4, 5])
        c["loopvars"][i] = max(k, 1)
        c["assigned"].add(i)
        saved = set(c["assigned"])
        body = self.block(c, depth + 1, r.randrange(1, 4))
        c["assigned"] = saved
        del c["loopvars"][i]
        inc = ("ass", ("var", i), ("bin", "+", ("var", i), ("num", 1)))
        body = ("seq", [body, inc]) if body[0] != "seq" else ("seq", body[1] + [inc])
        cond = r.choice([("bin", "<", ("var", i), ("num", k)), ("bin", "~=", ("var", i), ("num", k)),
                         ("bin", ">", ("num", k), ("var", i)), ("bin", "<=", ("var", i), ("num", k - 1))])
        return ("seq", [("ass", ("var", i), ("num", 0)), ("while", cond, body)])

    def block(self, c, depth, n):
        ss = [self.stmt(c, depth) for _ in range(n)]
        if len(ss) == 1 and self.r.random() < 0.5:
            return ss[0]
        return ("seq", ss)

    def declare_locals(self, m, c):
        r = self.r
        nl = r.choice([0, 1, 1, 2, 3]) if not m.get("nolocals") else 0
        inits = []
        for _ in range(nl):
            n = self.local_name(m)
            c["arrays"].pop(n, None)
            if r.random() < 0.15:
                e, v = self.const_expr()
                if xref.INT_MIN < v <= xref.INT_MAX:
                    m["locals"].append(("val", n, e))
                    c["ints"].append(n)
                    continue
            m["locals"].append(("var", n))
            c["locals"].append(n)
        for n in c["locals"]:
            if r.random() < 0.97:
                inits.append(("ass", ("var", n), self.int_expr(c, 2)))
                c["assigned"].add(n)
        return inits

    def proc_body(self, m):
        r = self.r
        c = self.ctx(m)
        if m["kind"] == "func" and not m["fm"] and r.random() < 0.0:
            pass
        if m["kind"] == "func" and len(m["fm"]) == 1 and m["fm"][0][0] == "val" and r.random() < 0.3:
            m["identity"] = True
            if r.random() < 0.4:
                # noisy identity: a side effect that makes a second evaluation of the caller's operand visible
                m["impure"] = True
                return ("seq", [("sysst", 1, [("chr", r.choice(b"!?*")), ("num", 0)]), ("ret", ("var", m["fm"][0][1]))])
            return ("ret", ("var", m["fm"][0][1]))
        ss = self.declare_locals(m, c)
        n = r.choice([0, 1, 2, 3, 4]) if self.size >= 1 else r.choice([0, 1, 2])
        for _ in range(n):
            s = self.stmt(c, 1)
            if not m["impure"]:
                s = self.purify(s, c)
            ss.append(s)
        if m["kind"] == "func":
            if r.random() < 0.2:
                ss.append(("if", self.bool_expr(c), ("ret", self.int_expr(c, 1)), ("skip",)))
            ss.append(("ret", self.int_expr(c, 0)))
        if not ss:
            return ("skip",)
        if len(ss) == 1:
            return ss[0]
        return ("seq", ss)

    def purify(self, s, c):
        """helpers marked pure: drop I/O and global writes (keeps most unordered groups conflict-free)"""
        k = s[0]
        if k in ("sysst",):
            return ("skip",)
        if k == "callst" and s[1] in self.sysnames.values():
            return ("skip",)
        if k == "ass":
            if s[1][0] == "var" and s[1][1] in self.gvars and s[1][1] not in self.shadow(c):
                return ("skip",)
            if s[1][0] == "sub":
                return ("skip",)
            return s
        if k == "if":
            return ("if", s[1], self.purify(s[2], c), self.purify(s[3], c))
        if k == "while":
            return ("while", s[1], self.purify(s[2], c))
        if k == "seq":
            return ("seq", [self.purify(x, c) for x in s[1]])
        if k == "stop":
            return ("skip",)
        return s

    def rec_body(self, m):
        r = self.r
        n = m["fm"][0][1]
        c = self.ctx(m)
        base = self.int_expr(c, 2)
        if m.get("mutual"):
            base = self.int_leaf(c) if False else ("num", self.r.randrange(0, 9))   # no calls in the base case: it must terminate
            o = m["mutual"]
            args = [("bin", "-", ("var", n), ("num", 1))] + [("num", r.randrange(5)) for _ in o["fm"][1:]]
            step = ("bin", "+", ("call", o["name"], args), ("num", r.choice([1, 2])))
            cond = ("bin", "<=", ("var", n), ("num", 0))
            return ("if", cond, ("ret", base), ("ret", step))
        inner = ("call", m["name"], [("bin", "-", ("var", n), ("num", 1))] + [("var", f[1]) for f in m["fm"][1:]])
        form = r.choice(["plus", "plusn", "nest", "twice"])
        if form == "plus":
            step = ("bin", "+", inner, ("num", r.choice([1, 2, 3])))
        elif form == "plusn":
            step = ("bin", "+", ("var", n), inner)
        elif form == "nest":
            step = ("bin", "-", ("bin", "+", inner, ("var", n)), ("num", 1))
        else:
            inner2 = ("call", m["name"], [("bin", "-", ("var", n), ("num", 1))] + [("var", f[1]) for f in m["fm"][1:]])
            step = ("bin", "+", inner, inner2)
        cond = r.choice([("bin", "<=", ("var", n), ("num", 0)), ("bin", "<", ("var", n), ("num", 1)),
                         ("bin", "=", ("var", n), ("num", 0))])
        return ("if", cond, ("ret", base), ("ret", step))

    def main_body(self, main):
        r = self.r
        c = self.ctx(main)
        ss = []
        # initialise globals and arrays
        for g in self.gvars:
            if r.random() < 0.97:
                ss.append(("ass", ("var", g), ("num", self.small_const()) if r.random() < 0.7 else self.literal(r.randrange(0, 300))))
        m = main
        inits = self.declare_locals(m, c)
        late = inits
        for n, ln in self.garrays.items():
            if r.random() < 0.97:
                if ln <= 3 or r.random() < 0.5 or not c["locals"]:
                    for i in range(ln):
                        ss.append(("ass", ("sub", n, ("num", i)), ("num", r.randrange(-50, 300))))
                else:
                    i = c["locals"][0]
                    ss.append(("ass", ("var", i), ("num", 0)))
                    ss.append(("while", ("bin", "<", ("var", i), ("num", ln)),
                               ("seq", [("ass", ("sub", n, ("var", i)), ("bin", "+", ("var", i), ("num", r.randrange(0, 90)))),
                                        ("ass", ("var", i), ("bin", "+", ("var", i), ("num", 1)))])))
                    c["assigned"].add(i)
        ss += late
        n = r.choice([1, 2, 3, 4, 5, 6]) if self.size >= 1 else r.choice([1, 2])
        for _ in range(n):
            ss.append(self.stmt(c, 0))
        # make results observable
        obs = [n for n in c["locals"] if n in c["assigned"]] + list(self.gvars)
        if obs and r.random() < 0.8:
            tgt = ("var", r.choice(obs))
            if r.random() < 0.5:
                ss.append(("sysst", 1, [tgt, ("num", 0)]))
            else:
                ss.append(self.exit_stmt(c) if r.random() < 0.3 else ("sysst", 0, [tgt]))
        body = ("seq", ss) if len(ss) != 1 else ss[0]
        return {"kind": "proc", "name": "main", "formals": [], "locals": m["locals"], "body": body}


def random_program(rnd, size=1.0):
    g = G(rnd, size)
    prog = g.program()
    nin = rnd.choice([0, 0, 1, 2, 5, 12])
    console = bytes(rnd.choice([rnd.randrange(256), rnd.randrange(32, 127), 0xFF, 0x80, 0]) for _ in range(nin))
    if rnd.random() < 0.05:
        prog, console = reenter_main(prog, console, rnd)
    return prog, console, g.files_in


def reenter_main(prog, console, rnd):
    """main is entered again from X code (directly or through a procedure), driven by the first input bytes, before
    its own body runs in each activation."""
    k = rnd.choice([1, 1, 2, 3])
    procs = []
    for p in prog["procs"]:
        if p["name"] != "main":
            procs.append(p)
            continue
        first = ("ass", ("var", "reent9"), ("sys", 2, [("num", 0)]))
        if rnd.random() < 0.5:
            again = ("if", ("bin", "=", ("var", "reent9"), ("chr", ord("r"))), ("callst", "main", []), ("skip",))
        else:
            again = ("callst", "reenter9", [("var", "reent9")])
            procs.append({"kind": "proc", "name": "reenter9", "formals": [("val", "k")], "locals": [],
                          "body": ("if", ("bin", "=", ("var", "k"), ("chr", ord("r"))), ("callst", "main", []), ("skip",))})
        body = p["body"]
        inner = list(body[1]) if body[0] == "seq" else [body]
        procs.append({"kind": "proc", "name": "main", "formals": [], "locals": list(p["locals"]) + [("var", "reent9")],
                      "body": ("seq", [first, again] + inner)})
    return {"globals": prog["globals"], "procs": procs}, b"r" * k + b"." + console


# --------------------------------------------------------------------------
# systematic shape matrices
# --------------------------------------------------------------------------
OPERAND_KINDS = ["small", "pool", "parenconst", "valname", "local", "formal", "global", "elem_const", "elem_var",
                 "elem_call", "call", "temp", "nested_call", "neg", "string_elem"]
BIN_OPS = ["+", "-", "=", "~=", "<", "<=", ">", ">=", "and", "or"]
CONTEXTS = ["assign", "actual1", "actual2of2", "actual1of2", "actual2of3", "subscript", "condition", "return",
            "sysarg", "while", "elemassign_rhs", "elemassign_idx", "nested_binop_l", "nested_binop_r"]


def operand(kind, v, boolean=False):
    """-> expr producing value v (an int; 0/1 if boolean) for the fixed scaffold below"""
    # scaffold names: val K7=7, val KP=70000; globals g1=3,g2=5; array arr[6] = {10,11,12,13,14,15};
    # locals l1=2,l2=9 ; formals p1=4,p2=6 ; func id(val x) returns x ; func add(val x, val y) returns x+y
    # func two() returns 2
    if boolean:
        base = {"small": ("num", v), "pool": ("bin", "=", ("num", 70000), ("num", 70000 if v else 70001)),
                "parenconst": ("bin", "<", ("num", 1 - v), ("num", 1)), "valname": ("var", "B1" if v else "B0"),
                "local": ("var", "lt" if v else "lf"), "formal": ("var", "pt" if v else "pf"),
                "global": ("var", "gt" if v else "gf"), "elem_const": ("sub", "barr", ("num", v)),
                "elem_var": ("sub", "barr", ("var", "lt" if v else "lf")),
                "elem_call": ("sub", "barr", ("call", "id", [("num", v)])), "call": ("call", "id", [("num", v)]),
                "temp": ("bin", "<", ("var", "l1"), ("bin", "+", ("var", "l2"), ("num", 0 if v else -100))),
                "nested_call": ("call", "id", [("call", "id", [("num", v)])]),
                "neg": ("un", "~", ("var", "lf" if v else "lt")),
                "string_elem": ("bin", "=", ("sub", "arr", ("num", 0)), ("num", 10 if v else 11))}
        return base[kind]
    if kind == "small":
        return ("num", v)
    if kind == "pool":
        return ("bin", "-", ("num", v + 70000), ("var", "KP"))     # folded constant from pool-sized parts
    if kind == "parenconst":
        return ("bin", "+", ("num", v - 1), ("num", 1))
    if kind == "valname":
        return ("bin", "+", ("var", "K7"), ("num", v - 7))
    if kind == "local":
        return ("bin", "+", ("var", "l1"), ("num", v - 2))
    if kind == "formal":
        return ("bin", "+", ("var", "p1"), ("num", v - 4))
    if kind == "global":
        return ("bin", "+", ("var", "g1"), ("num", v - 3))
    if kind == "elem_const":
        return ("bin", "+", ("sub", "arr", ("num", 2)), ("num", v - 12))
    if kind == "elem_var":
        return ("bin", "+", ("sub", "arr", ("var", "l1")), ("num", v - 12))
    if kind == "elem_call":
        return ("bin", "+", ("sub", "arr", ("call", "two", [])), ("num", v - 12))
    if kind == "call":
        return ("call", "id", [("num", v)])
    if kind == "temp":
        return ("bin", "-", ("bin", "+", ("var", "l2"), ("var", "p2")), ("num", 15 - v))
    if kind == "nested_call":
        return ("call", "add", [("call", "id", [("num", v - 1)]), ("call", "two", [])]) if True else None
    if kind == "neg":
        return ("un", "-", ("bin", "-", ("var", "l1"), ("num", v + 2)))
    if kind == "string_elem":
        return ("bin", "+", ("sub", "arr", ("num", 0)), ("num", v - 10))
    raise ValueError(kind)


def raw_operand(kind, v):
    """operand whose top node is the kind itself (no wrapping +), value fixed by the scaffold; returns (expr, value)"""
    table = {
        "small": (("num", v), v), "pool": (("num", 70000 + v), 70000 + v),
        "parenconst": (("bin", "+", ("num", v), ("num", 2)), v + 2), "valname": (("var", "K7"), 7),
        "local": (("var", "l1"), 2), "formal": (("var", "p1"), 4), "global": (("var", "g1"), 3),
        "elem_const": (("sub", "arr", ("num", 2)), 12), "elem_var": (("sub", "arr", ("var", "l1")), 12),
        "elem_call": (("sub", "arr", ("call", "two", [])), 12), "call": (("call", "id", [("num", v)]), v),
        "temp": (("bin", "+", ("var", "l2"), ("var", "p2")), 15),
        "nested_call": (("call", "add", [("call", "id", [("num", v)]), ("call", "two", [])]), v + 2),
        "neg": (("un", "-", ("var", "l1")), -2), "string_elem": (("sub", "arr", ("num", 0)), 10),
    }
    return table[kind]


def shape_program(op, lk, rk, context, lv=5, rv=3):
    """One binary operator with operand kinds (lk, rk) placed in `context`; the program prints/exit()s the result
    so that the reference and the binary can be compared.  Returns program AST."""
    boolean = op in ("and", "or")
    if boolean:
        lv, rv = lv & 1, rv & 1
        L, R = operand(lk, lv, True), operand(rk, rv, True)
    else:
        L, _ = raw_operand(lk, lv)
        R, _ = raw_operand(rk, rv)
    E = ("bin", op, L, R)
    g = [("val", "K7", ("num", 7)), ("val", "KP", ("num", 70000)), ("val", "B1", ("bool", True)), ("val", "B0", ("bool", False)),
         ("var", "g1"), ("var", "g2"), ("var", "gt"), ("var", "gf"), ("var", "res"),
         ("array", "arr", ("num", 6)), ("array", "barr", ("num", 2)), ("array", "out", ("num", 40))]
    procs = [
        {"kind": "func", "name": "id", "formals": [("val", "x")], "locals": [], "body": ("ret", ("var", "x"))},
        {"kind": "func", "name": "two", "formals": [], "locals": [], "body": ("ret", ("num", 2))},
        {"kind": "func", "name": "add", "formals": [("val", "x"), ("val", "y")], "locals": [],
         "body": ("ret", ("bin", "+", ("var", "x"), ("var", "y")))},
        {"kind": "func", "name": "first", "formals": [("val", "x"), ("val", "y")], "locals": [], "body": ("ret", ("var", "x"))},
        {"kind": "func", "name": "second", "formals": [("val", "x"), ("val", "y")], "locals": [], "body": ("ret", ("var", "y"))},
        {"kind": "func", "name": "mid3", "formals": [("val", "x"), ("val", "y"), ("val", "z")], "locals": [], "body": ("ret", ("var", "y"))},
    ]
    wl1, wl2 = ("var", "l1"), ("var", "l2")
    setup = [("ass", ("var", "g1"), ("num", 3)), ("ass", ("var", "g2"), ("num", 5)), ("ass", ("var", "gt"), ("num", 1)),
             ("ass", ("var", "gf"), ("num", 0)), ("ass", ("var", "res"), ("num", 0))]
    for i in range(6):
        setup.append(("ass", ("sub", "arr", ("num", i)), ("num", 10 + i)))
    setup += [("ass", ("sub", "barr", ("num", 0)), ("num", 0)), ("ass", ("sub", "barr", ("num", 1)), ("num", 1))]
    for i in range(40):
        setup.append(("ass", ("sub", "out", ("num", i)), ("num", 100 + i)))
    wsetup = [("ass", wl1, ("num", 2)), ("ass", wl2, ("num", 9)), ("ass", ("var", "lt"), ("num", 1)), ("ass", ("var", "lf"), ("num", 0)),
              ("ass", ("var", "r"), ("num", 0))]
    show = lambda e: ("sysst", 0, [e])   # noqa: E731
    idxwrap = lambda e: e                # noqa: E731
    if op in ("+", "-"):
        # keep subscripts in range: results are small by construction; clamp through a fixed offset table
        pass
    if context == "assign":
        body = [("ass", ("var", "r"), E), show(("var", "r"))]
    elif context == "actual1":
        body = [show(("call", "id", [E]))]
    elif context == "actual2of2":
        body = [show(("call", "second", [("bin", "+", wl1, wl2), E]))]
    elif context == "actual1of2":
        body = [show(("call", "first", [E, ("call", "two", [])]))]
    elif context == "actual2of3":
        body = [show(("call", "mid3", [("call", "id", [("num", 1)]), E, ("bin", "-", wl2, wl1)]))]
    elif context == "subscript":
        body = [show(("sub", "out", ("bin", "+", ("num", 20), E) if not boolean else E))]
    elif context == "condition":
        c = E if boolean or op in ("=", "~=", "<", "<=", ">", ">=") else ("bin", "<", E, ("num", 6))
        body = [("if", c, show(("num", 11)), show(("num", 22)))]
    elif context == "return":
        procs.append({"kind": "func", "name": "w", "formals": [("val", "p1"), ("val", "p2"), ("val", "pt"), ("val", "pf")],
                      "locals": [("var", "l1"), ("var", "l2"), ("var", "lt"), ("var", "lf"), ("var", "r")],
                      "body": ("seq", wsetup + [("ret", E)])})
        main = {"kind": "proc", "name": "main", "formals": [], "locals": [],
                "body": ("seq", setup + [show(("call", "w", [("num", 4), ("num", 6), ("num", 1), ("num", 0)]))])}
        return {"globals": g, "procs": procs + [main]}
    elif context == "sysarg":
        body = [("sysst", 1, [("bin", "+", ("num", 65), E) if not boolean else ("bin", "+", ("num", 65), E), ("num", 0)]), show(("num", 0))]
    elif context == "while":
        c = E if boolean or op in ("=", "~=", "<", "<=", ">", ">=") else ("bin", "<", E, ("num", 6))
        body = [("while", ("bin", "and", ("bin", "<", ("var", "r"), ("num", 3)), c),
                 ("ass", ("var", "r"), ("bin", "+", ("var", "r"), ("num", 1)))), show(("var", "r"))]
    elif context == "elemassign_rhs":
        body = [("ass", ("sub", "out", ("bin", "+", wl1, ("num", 1))), E), show(("sub", "out", ("num", 3)))]
    elif context == "elemassign_idx":
        idx = ("bin", "+", ("num", 20), E) if not boolean else E
        body = [("ass", ("sub", "out", idx), ("bin", "+", wl2, ("num", 1000))),
                ("ass", ("var", "r"), ("num", 0)), ("ass", ("var", "l1"), ("num", 0)),
                ("while", ("bin", "<", ("var", "l1"), ("num", 40)),
                 ("seq", [("if", ("bin", "=", ("sub", "out", ("var", "l1")), ("num", 1009)), ("ass", ("var", "r"), ("var", "l1")), ("skip",)),
                          ("ass", ("var", "l1"), ("bin", "+", ("var", "l1"), ("num", 1)))])),
                show(("var", "r"))]
    elif context == "nested_binop_l":
        body = [show(("bin", "+", E, ("call", "two", [])))]
    elif context == "nested_binop_r":
        body = [show(("bin", "-", ("bin", "+", wl2, ("var", "p2")), E))]
    else:
        raise ValueError(context)
    procs.append({"kind": "proc", "name": "w", "formals": [("val", "p1"), ("val", "p2"), ("val", "pt"), ("val", "pf")],
                  "locals": [("var", "l1"), ("var", "l2"), ("var", "lt"), ("var", "lf"), ("var", "r")],
                  "body": ("seq", wsetup + body)})
    main = {"kind": "proc", "name": "main", "formals": [], "locals": [],
            "body": ("seq", setup + [("callst", "w", [("num", 4), ("num", 6), ("num", 1), ("num", 0)])])}
    return {"globals": g, "procs": procs + [main]}


def shape_matrix(tier, rnd):
    """Yields (tag, program).  Quick: all operator x kind x kind in a rotating context; thorough: every context."""
    kinds = OPERAND_KINDS
    n = 0
    for op in BIN_OPS:
        for lk, rk in itertools.product(kinds, kinds):
            if tier == "quick":
                ctxs = [CONTEXTS[n % len(CONTEXTS)]]
            else:
                ctxs = CONTEXTS
            n += 1
            for ctx in ctxs:
                yield ("shape:%s:%s:%s:%s" % (op, lk, rk, ctx), shape_program(op, lk, rk, ctx))


def callconv_matrix(rnd, tier):
    """Calling-convention matrix: 0..10 actuals of mixed kinds, nesting, procedures with empty frames."""
    kinds = ["const", "local", "call", "temp", "elem", "nested", "global", "string"]
    count = 400 if tier == "quick" else 6000
    for t in range(count):
        nargs = rnd.choice([0, 1, 2, 2, 3, 3, 4, 5, 6, 8, 10])
        pat = [rnd.choice(kinds) for _ in range(nargs)]
        yield ("callconv:%s" % ",".join(pat), callconv_program(pat, rnd))


def callconv_program(pat, rnd):
    g = [("var", "g1"), ("array", "arr", ("num", 4))]
    formals = []
    weights = []
    body_terms = []
    args = []
    expect_kinds = []
    for i, k in enumerate(pat):
        if k == "string":
            formals.append(("array", "s%d" % i))
            body_terms.append(("sub", "s%d" % i, ("num", 0)))
            args.append(("str", bytes([65 + i]) * rnd.randrange(0, 6)) if rnd.random() < 0.5 else ("var", "arr"))
        else:
            formals.append(("val", "a%d" % i))
            body_terms.append(("var", "a%d" % i))
            v = rnd.randrange(1, 40)
            if k == "const":
                args.append(("num", v))
            elif k == "local":
                args.append(("var", "l1"))
            elif k == "global":
                args.append(("var", "g1"))
            elif k == "call":
                args.append(("call", "id", [("num", v)]))
            elif k == "temp":
                args.append(("bin", "-", ("bin", "+", ("var", "l1"), ("var", "l2")), ("num", v)))
            elif k == "elem":
                args.append(("sub", "arr", ("bin", "-", ("var", "l2"), ("num", 8))))
            elif k == "nested":
                args.append(("call", "id", [("bin", "+", ("call", "id", [("num", v)]), ("var", "l1"))]))
    # callee prints each parameter separately so that a swapped or clobbered slot is visible
    stmts = []
    for i, t in enumerate(body_terms):
        stmts.append(("sysst", 1, [("bin", "+", t, ("num", 0)), ("num", 0)]))
        stmts.append(("sysst", 1, [("bin", "-", ("num", 255), ("num", i)), ("num", 256 + 0)]))
    kind = rnd.choice(["proc", "func"])
    if kind == "func":
        ret = ("num", 0)
        for t in body_terms[:3]:
            ret = ("bin", "+", t, ret) if ret != ("num", 0) else t
        stmts.append(("ret", ret if body_terms else ("num", 9)))
    callee = {"kind": kind, "name": "callee", "formals": formals, "locals": [], "body": ("seq", stmts) if len(stmts) != 1 else stmts[0]}
    if not stmts:
        callee["body"] = ("skip",)
    idf = {"kind": "func", "name": "id", "formals": [("val", "x")], "locals": [], "body": ("ret", ("var", "x"))}
    setup = [("ass", ("var", "g1"), ("num", 33)), ("ass", ("var", "l1"), ("num", 5)), ("ass", ("var", "l2"), ("num", 9))]
    for i in range(4):
        setup.append(("ass", ("sub", "arr", ("num", i)), ("num", 70 + i)))
    if kind == "proc":
        call = [("callst", "callee", args)]
    else:
        call = [("sysst", 1, [("call", "callee", args), ("num", 0)])]
    wrap_depth = rnd.randrange(0, 4)
    main_body = ("seq", setup + call + [("sysst", 1, [("var", "l1"), ("num", 0)]), ("sysst", 1, [("var", "l2"), ("num", 0)])])
    procs = [callee, idf]
    caller = {"kind": "proc", "name": "main" if wrap_depth == 0 else "lvl0", "formals": [], "locals": [("var", "l1"), ("var", "l2")],
              "body": main_body}
    procs.append(caller)
    for d in range(wrap_depth):
        name = "main" if d == wrap_depth - 1 else "lvl%d" % (d + 1)
        procs.append({"kind": "proc", "name": name, "formals": [], "locals": [("var", "q")] if rnd.random() < 0.5 else [],
                      "body": ("callst", "lvl%d" % d, [])})
    rnd.shuffle(procs)
    return {"globals": g, "procs": procs}


def temps_expr(rnd, k, leaves):
    """An integer expression whose evaluation needs about k stack temporaries at once (right operands that need areg)."""
    def leaf():
        return rnd.choice(leaves)
    if k <= 0:
        return ("bin", rnd.choice(["+", "-"]), leaf(), leaf()) if rnd.random() < 0.5 else leaf()
    left = temps_expr(rnd, k - 1, leaves)
    right = ("bin", rnd.choice(["+", "-"]), leaf(), leaf())
    if rnd.random() < 0.3:
        right = ("sub", "tab", ("num", rnd.randrange(4)))
    return ("bin", rnd.choice(["+", "-"]), left, right)


def argclobber_program(rnd):
    """Calls whose later actuals need several temporaries, or contain calls of their own (also inside subscripts), while
    earlier actuals (array addresses, indices) already sit in their parameter slots, in procedures whose frame has already
    been deepened by earlier statements."""
    nvals = rnd.randrange(0, 3)
    order = rnd.choice(["array-first", "array-last", "array-mid"])
    formals = [("val", "v%d" % i) for i in range(nvals + 1)]
    pos = {"array-first": 0, "array-last": len(formals), "array-mid": len(formals) // 2}[order]
    formals.insert(pos, ("array", "a"))
    idxf = rnd.random() < 0.5
    body = []
    acc = ("var", "v0")
    for i in range(1, nvals + 1):
        acc = ("bin", "+", acc, ("var", "v%d" % i))
    body.append(("ass", ("sub", "a", ("var", "v0") if idxf and False else ("num", rnd.randrange(0, 3))), acc))
    callee_kind = rnd.choice(["proc", "func"])
    if callee_kind == "func":
        body.append(("ret", ("sub", "a", ("num", 0))))
    callee = {"kind": callee_kind, "name": "poke", "formals": formals, "locals": [], "body": ("seq", body) if len(body) > 1 else body[0]}
    one = {"kind": "func", "name": "one", "formals": [], "locals": [], "body": ("ret", ("num", 1))}
    many = {"kind": "func", "name": "many", "formals": [("val", "p%d" % i) for i in range(rnd.randrange(1, 7))], "locals": [],
            "body": ("ret", ("var", "p0"))}
    locs = ["x", "y", "z", "c", "d"]
    leaves = [("var", n) for n in locs] + [("num", rnd.randrange(1, 30))]
    if rnd.random() < 0.5:
        # calls inside the later actuals: on their own, inside a subscript, inside a nested subscript
        leaves += [("call", "one", []), ("sub", "tab", ("call", "one", [])), ("sub", "tab", ("bin", "+", ("call", "one", []), ("num", 1))),
                   ("sub", "tab", ("bin", "-", ("sub", "tab", ("call", "one", [])), ("num", 100))),
                   ("call", "many", [("sub", "tab", ("call", "one", []))] + [("num", 2)] * (len(many["formals"]) - 1))]
    stmts = [("ass", ("var", n), ("num", 3 + i * 7)) for i, n in enumerate(locs)]
    for i in range(4):
        stmts.append(("ass", ("sub", "tab", ("num", i)), ("num", 100 + i)))
        stmts.append(("ass", ("sub", "buf", ("num", i)), ("num", 0)))
    # earlier code that deepens the frame
    pre = rnd.choice(["call", "manyargs", "deepexpr", "none"])
    if pre == "call":
        stmts.append(("ass", ("var", "x"), ("call", "one", [])))
    elif pre == "manyargs":
        stmts.append(("ass", ("var", "x"), ("call", "many", [temps_expr(rnd, rnd.randrange(0, 2), leaves) for _ in many["formals"]])))
    elif pre == "deepexpr":
        stmts.append(("ass", ("var", "y"), temps_expr(rnd, rnd.randrange(1, 5), leaves)))
    args = []
    for k, (fk, fn) in enumerate(formals):
        if fk == "array":
            args.append(("var", "buf"))
        else:
            args.append(temps_expr(rnd, rnd.choice([0, 1, 2, 2, 3, 4]), leaves))
    if callee_kind == "proc":
        stmts.append(("callst", "poke", args))
    else:
        stmts.append(("ass", ("var", "z"), ("call", "poke", args)))
    for i in range(3):
        stmts.append(("sysst", 1, [("sub", "buf", ("num", i)), ("num", 0)]))
    stmts.append(("sysst", 1, [("var", "z"), ("num", 0)]))
    w = {"kind": "proc", "name": "w", "formals": [], "locals": [("var", n) for n in locs], "body": ("seq", stmts)}
    main = {"kind": "proc", "name": "main", "formals": [], "locals": [], "body": ("callst", "w", [])}
    procs = [callee, one, many, w, main]
    rnd.shuffle(procs)
    return {"globals": [("array", "buf", ("num", 4)), ("array", "tab", ("num", 4))], "procs": procs}


def argclobber_matrix(rnd, tier):
    n = 600 if tier == "quick" else 20000
    for i in range(n):
        sub = rnd.randrange(1 << 62)
        import random as _r
        yield ("argclobber:%d" % sub, argclobber_program(_r.Random(sub)))


def arraycopy_program(rnd):
    """Element copies between global arrays of different sizes (first-declared array sits at the very top of memory):
    every combination of constant / variable / computed subscripts on both sides, then all arrays are printed."""
    n = rnd.randrange(2, 5)
    sizes = [rnd.choice([1, 2, 3, 4, 8, 16, 64]) for _ in range(n)]
    names = ["t%d" % i for i in range(n)]
    globs = [("array", nm, ("num", sz)) for nm, sz in zip(names, sizes)]
    stmts = []
    for nm, sz in zip(names, sizes):
        for i in range(sz):
            stmts.append(("ass", ("sub", nm, ("num", i)), ("num", (i * 7 + len(nm) + sz) % 50)))

    def subscript(nm, sz, side):
        k = rnd.randrange(sz)
        form = rnd.choice(["const", "var", "expr", "call", "elem"])
        v = "i" if side == 0 else "j"
        if form == "const":
            return ("num", k)
        if form == "var":
            stmts.append(("ass", ("var", v), ("num", k)))
            return ("var", v)
        if form == "expr":
            stmts.append(("ass", ("var", v), ("num", k + 2)))
            return ("bin", "-", ("var", v), ("num", 2))
        if form == "call":
            return ("call", "id", [("num", k)])
        stmts.append(("ass", ("sub", "idx", ("num", side)), ("num", k)))
        return ("sub", "idx", ("num", side))
    for _ in range(rnd.randrange(3, 12)):
        a = rnd.randrange(n)
        b = rnd.randrange(n)
        rhs = ("sub", names[b], subscript(names[b], sizes[b], 1))
        if rnd.random() < 0.3:
            rhs = ("bin", rnd.choice(["+", "-"]), rhs, ("num", rnd.randrange(5)))
        lhs = ("sub", names[a], subscript(names[a], sizes[a], 0))
        stmts.append(("ass", lhs, rhs))
    for nm, sz in zip(names, sizes):
        for i in range(min(sz, 8)):
            stmts.append(("sysst", 1, [("sub", nm, ("num", i)), ("num", 0)]))
    idf = {"kind": "func", "name": "id", "formals": [("val", "x")], "locals": [], "body": ("ret", ("var", "x"))}
    main = {"kind": "proc", "name": "main", "formals": [], "locals": [("var", "i"), ("var", "j")], "body": ("seq", stmts)}
    globs.insert(rnd.randrange(len(globs) + 1), ("array", "idx", ("num", 2)))
    return {"globals": globs, "procs": [idf, main] if rnd.random() < 0.5 else [main, idf]}


def arraycopy_matrix(rnd, tier):
    import random as _r
    n = 500 if tier == "quick" else 20000
    for i in range(n):
        sub = rnd.randrange(1 << 62)
        yield ("arraycopy:%d" % sub, arraycopy_program(_r.Random(sub)))


def reentry_matrix():
    """main entered again from X code (by itself, through a procedure, through a function, from a loop): only the
    activation started by the entry stub returns to the stub, and it must do so with the load-time stack pointer.
    The recursion is driven by the input so that every variable is assigned before it is read."""
    out = []
    for nl in (0, 1, 3, 12):
        locs = "".join("  var l%d;\n" % i for i in range(1, nl + 1))
        use = "".join("  l%d := c + %d;\n" % (i, i) for i in range(1, nl + 1))
        last = "l%d - %d" % (nl, nl) if nl else "c"
        shapes = {
            "self": ("", "if c = 'a' then main() else skip"),
            "proc": ("proc p(val k) is if k = 'a' then main() else skip\n", "p(c)"),
            "func": ("func f(val k) is { if k = 'a' then main() else skip; return k + 1 }\n", "g := f(c) - 1"),
            "loop": ("", "{ g := c; while g = 'a' do { main(); g := 0 } }"),
            "twice": ("", "if c = 'a' then { main(); main() } else skip"),
        }
        for name, (helpers, call) in shapes.items():
            src = ("var g;\n" + helpers + "proc main() is\n  var c;\n" + locs + "{\n  c := 2(0);\n" + use +
                   "  " + call + ";\n  1(" + last + ", 0)\n}\n")
            for inp in (b"b", b"ab", b"aaab", b"aabab" + b"b" * 8, b"a" * 40 + b"b" * 60):
                out.append(("reenter:%s:%d:%d" % (name, nl, len(inp)), xref.parse(src), inp))
    return out


def guard_matrix():
    """Searches whose loop or if condition guards an array access with a bounds test (`(i ~= n) and (a[i] ~= x)` and its
    variants): short-circuit evaluation means a[n] (or a[-1]) is never read, whichever array it would fall outside of -
    the first-declared array sits at the very top of memory, so one word past it is outside the machine."""
    out = []
    guards = [
        ("ne-and-ne", "(i ~= n) and (AA[i] ~= x)"), ("lt-and-ne", "(i < n) and (AA[i] ~= x)"), ("gt-and-ne", "(n > i) and (AA[i] ~= x)"),
        ("le-and-ne", "(i <= (n - 1)) and (AA[i] ~= x)"), ("not-or", "~((i = n) or (AA[i] = x))"), ("not-ge-or", "~((i >= n) or (AA[i] = x))"),
        ("ne-and-not", "(i ~= n) and (~(AA[i] = x))"), ("nested", "(i ~= n) and ((AA[i] ~= x) and (AA[i] ~= (x + 1)))"),
    ]
    for gname, g in guards:
        for which in ("first", "second"):
            for nsize in (1, 3, 8):
                for nkind in ("lit", "val", "var"):
                    for present in (False, True):
                        aa = "top" if which == "first" else "low"
                        n = {"lit": str(nsize), "val": "N", "var": "nv"}[nkind]
                        x = str(nsize) if present else "77"
                        src = ("val N = %d;\narray top[%d];\narray low[%d];\nvar nv;\n" % (nsize, nsize, nsize) +
                               "func find(val x) is\n  var i;\n  var n;\n{\n  n := %s;\n  i := 0;\n  while %s do i := i + 1;\n  return i\n}\n" % (n, g.replace("AA", aa)) +
                               "func has(val x) is\n  var i;\n  var n;\n{\n  n := %s;\n  i := n - 1;\n  while (i >= 0) and (%s[i] ~= x) do i := i - 1;\n"
                               "  if (i ~= (0 - 1)) and (%s[i] = x) then return 1 else return 0\n}\n" % (n, aa, aa) +
                               "proc main() is\n  var k;\n{\n  nv := %d;\n  k := 0;\n  while k < %d do { top[k] := k + 1; low[k] := k + 1; k := k + 1 };\n"
                               "  1(find(%s) + 48, 0);\n  1(has(%s) + 48, 0);\n  0(find(%s))\n}\n" % (nsize, nsize, x, x, x))
                        out.append(("guard:%s:%s:%d:%s:%s" % (gname, which, nsize, nkind, "hit" if present else "miss"), xref.parse(src), b""))
    return out
