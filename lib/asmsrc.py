"""Assembly programs as directive lists: rendering, an independent parser of
the hexasm source syntax, and the decode-walk oracle shared by C05/C15/C17.

Directive tuples:
  ("label", name) ("func", name) ("proc", name) ("data", value)
  ("imm", MNEM, value) ("ref", MNEM, labelname) ("opr", OPNAME)
"""
import re
import struct

OPC = {"LDAM": 0, "LDBM": 1, "STAM": 2, "LDAC": 3, "LDBC": 4, "LDAP": 5, "LDAI": 6, "LDBI": 7, "STAI": 8,
       "BR": 9, "BRZ": 10, "BRN": 11, "OPR": 13, "PFIX": 14, "NFIX": 15}
OPCNAME = {v: k for k, v in OPC.items()}
OPRS = {"BRB": 0, "ADD": 1, "SUB": 2, "SVC": 3}
ABSOLUTE = ("LDAM", "LDBM", "STAM", "LDAC", "LDBC")
RELATIVE = ("LDAP", "LDAI", "LDBI", "STAI", "BR", "BRN", "BRZ")
IMM_MNEMS = ABSOLUTE + RELATIVE
KEYWORDS = set(IMM_MNEMS) | {"OPR", "DATA", "FUNC", "PROC", "ADD", "SUB", "BRB", "SVC"}
M32 = 0xFFFFFFFF


def render(dirs):
    out = []
    for d in dirs:
        k = d[0]
        if k == "label":
            out.append(d[1])
        elif k == "func":
            out.append("FUNC " + d[1])
        elif k == "proc":
            out.append("PROC " + d[1])
        elif k == "data":
            out.append("DATA %d" % d[1])
        elif k == "imm":
            out.append("%s %d" % (d[1], d[2]))
        elif k == "ref":
            out.append("%s %s" % (d[1], d[2]))
        elif k == "opr":
            out.append("OPR " + d[1])
    return "\n".join(out) + "\n"


_TOK = re.compile(r"#[^\n]*|[A-Za-z][A-Za-z0-9_]*|[0-9]+|-|\S")


def parse(text):
    """Independent parser for well-formed sources (raises ValueError otherwise)."""
    toks = [t for t in _TOK.findall(text) if not t.startswith("#")]
    dirs = []
    i = 0

    def integer(i):
        if toks[i] == "-":
            return -int(toks[i + 1]), i + 2
        return int(toks[i]), i + 1
    while i < len(toks):
        t = toks[i]
        if t == "DATA":
            v, i = integer(i + 1)
            dirs.append(("data", v))
        elif t in ("FUNC", "PROC"):
            dirs.append((t.lower(), toks[i + 1]))
            i += 2
        elif t == "OPR":
            if toks[i + 1] not in OPRS:
                raise ValueError("bad OPR operand")
            dirs.append(("opr", toks[i + 1]))
            i += 2
        elif t in IMM_MNEMS:
            n = toks[i + 1]
            if re.match(r"[A-Za-z]", n) and n not in KEYWORDS:
                dirs.append(("ref", t, n))
                i += 2
            else:
                v, i = integer(i + 1)
                dirs.append(("imm", t, v))
        elif re.match(r"[A-Za-z]", t) and t not in KEYWORDS:
            dirs.append(("label", t))
            i += 1
        else:
            raise ValueError("unexpected token %r" % t)
    return dirs


def split_file(blob):
    """-> (image_bytes, debug_bytes, header_words) or raises ValueError"""
    if len(blob) < 4:
        raise ValueError("file shorter than its header")
    words = struct.unpack_from("<I", blob, 0)[0]
    if 4 + 4 * words > len(blob):
        raise ValueError("header says %d words but file has %d bytes" % (words, len(blob)))
    return blob[4:4 + 4 * words], blob[4 + 4 * words:], words


def parse_debug(dbg):
    """-> list of (name, offset); raises ValueError if malformed"""
    if len(dbg) < 4:
        raise ValueError("debug tables missing")
    n = struct.unpack_from("<I", dbg, 0)[0]
    p = 4
    names = []
    for _ in range(n):
        e = dbg.find(b"\0", p)
        if e < 0:
            raise ValueError("unterminated string")
        names.append(dbg[p:e].decode("latin-1"))
        p = e + 1
    if p + 4 > len(dbg):
        raise ValueError("symbol count missing")
    m = struct.unpack_from("<I", dbg, p)[0]
    p += 4
    syms = []
    for _ in range(m):
        if p + 8 > len(dbg):
            raise ValueError("symbol table truncated")
        idx, off = struct.unpack_from("<II", dbg, p)
        p += 8
        if idx >= len(names):
            raise ValueError("string index out of range")
        syms.append((names[idx], off))
    if p != len(dbg):
        raise ValueError("%d trailing bytes after the symbol table" % (len(dbg) - p))
    return syms


def decode_chain(img, c):
    """Decode one prefix chain at c with the ISA operand rule.
    -> (opcode, operand(32-bit), end, nbytes) or None if the image ends / chain too long"""
    oreg = 0
    start = c
    while c < len(img) and c - start < 17:
        b = img[c]
        c += 1
        oreg |= b & 0xF
        op = b >> 4
        if op == 14:
            oreg = (oreg << 4) & M32
        elif op == 15:
            oreg = (0xFFFFFF00 | (oreg << 4)) & M32
        else:
            return op, oreg, c, c - start
    return None


def decode_walk(dirs, blob):
    """The C05 oracle.  -> dict(errors=[(code, text)], pos={label: byte}, items=[...], stats)"""
    errors = []
    try:
        img, dbg, words = split_file(blob)
    except ValueError as e:
        return {"errors": [("file", str(e))], "pos": {}, "items": [], "refs": []}
    pos = {}
    pending = []      # labels waiting to see whether a DATA follows directly
    refs = []
    items = []        # (kind, start, end, directive)
    symbols = []
    c = 0

    def flush(at):
        for name, kind in pending:
            pos[name] = at
            if kind != "label":
                symbols.append((name, at))
        del pending[:]
    for d in dirs:
        k = d[0]
        if k in ("label", "func", "proc"):
            pending.append((d[1], k))
            continue
        if k == "data":
            a = (c + 3) & ~3
            for x in range(c, min(a, len(img))):
                if img[x] != 0:
                    errors.append(("pad", "non-zero alignment byte at %d" % x))
            # labels directly before a DATA name the (aligned) data word; FUNC/PROC symbols keep the
            # position at which code would start, which is the same aligned place
            flush(a)
            if a + 4 > len(img):
                errors.append(("size", "image ends inside DATA at %d" % a))
                break
            w = struct.unpack_from("<I", img, a)[0]
            if w != (d[1] & M32):
                errors.append(("data", "DATA %d at %d holds %d" % (d[1], a, w)))
            items.append(("data", a, a + 4, d))
            c = a + 4
            continue
        flush(c)
        if k == "opr":
            if c >= len(img):
                errors.append(("size", "image ends at OPR"))
                break
            if img[c] != (0xD0 | OPRS[d[1]]):
                errors.append(("opr", "OPR %s at %d is byte %#x" % (d[1], c, img[c])))
            items.append(("opr", c, c + 1, d))
            c += 1
            continue
        r = decode_chain(img, c)
        if r is None:
            errors.append(("size", "image ends inside the chain of %s at %d" % (d[1], c)))
            break
        op, operand, end, n = r
        if op != OPC[d[1]]:
            errors.append(("opcode", "%s at %d decodes to opcode %s" % (d[1], c, OPCNAME.get(op, op))))
            break
        if k == "imm":
            if operand != (d[2] & M32):
                errors.append(("imm", "%s %d at %d delivers %d" % (d[1], d[2], c, operand)))
        else:
            refs.append((d[1], d[2], c, end, operand, n))
        items.append((k, c, end, d))
        c = end
    flush(c)
    # trailing padding and header
    if len(img) % 4:
        errors.append(("size", "image size %d not a multiple of 4" % len(img)))
    if not any(e[0] in ("size", "opcode") for e in errors):
        if len(img) - c >= 4 or len(img) < c:
            errors.append(("size", "walk ended at %d but image has %d bytes" % (c, len(img))))
        for x in range(c, len(img)):
            if img[x] != 0:
                errors.append(("pad", "non-zero trailing byte at %d" % x))
        for mnem, label, start, end, operand, n in refs:
            if label not in pos:
                errors.append(("unknown", "reference to undefined label %s was accepted" % label))
                continue
            target = pos[label]
            if mnem in RELATIVE:
                if (end + operand) & M32 != target:
                    sd = operand - (1 << 32) if operand & 0x80000000 else operand
                    errors.append(("rel", "%s %s at %d..%d has operand %d, reaches %d, label is at %d"
                                   % (mnem, label, start, end, sd, (end + operand) & M32, target)))
            else:
                if target & 3:
                    errors.append(("abs-unaligned", "%s %s accepted although the label is at byte %d" % (mnem, label, target)))
                elif operand != target >> 2:
                    errors.append(("abs", "%s %s at %d has operand %d, label is word %d" % (mnem, label, start, operand, target >> 2)))
        try:
            syms = parse_debug(dbg)
            if syms != symbols:
                errors.append(("debug", "symbol table %r, expected %r" % (syms[:6], symbols[:6])))
        except ValueError as e:
            errors.append(("debug", str(e)))
    return {"errors": errors, "pos": pos, "items": items, "refs": refs, "image_bytes": len(img)}


_LST = re.compile(r"^(0x[0-9a-fA-F]+|0+)\s+(.*?)\s*\((\d+) bytes\)\s*$")


def parse_listing(text):
    """-> (entries [(offset, text, nbytes)], total or None)"""
    entries = []
    total = None
    for line in text.splitlines():
        if not line.strip():
            continue
        m = _LST.match(line)
        if m:
            entries.append((int(m.group(1), 16), m.group(2), int(m.group(3))))
            continue
        m = re.match(r"^(\d+) bytes$", line.strip())
        if m:
            total = int(m.group(1))
            continue
        entries.append((None, line, None))
    return entries, total


def check_listing(text, blob):
    """The C17 oracle: every listed instruction/DATA line must be found at its listed
    offset in the image, with the listed size and operand, in order, with only zero
    bytes in between.  -> (errors, stats)"""
    errors = []
    stats = {"instr": 0, "data": 0, "label_operand": 0, "labels": 0, "covered": 0, "gap": 0}
    try:
        img, dbg, words = split_file(blob)
    except ValueError as e:
        return [("file", str(e))], stats
    entries, total = parse_listing(text)
    cursor = 0
    for off, txt, nb in entries:
        if off is None:
            errors.append(("format", "unparsable listing line %r" % txt))
            continue
        parts = txt.split()
        if not parts:
            errors.append(("format", "empty directive text"))
            continue
        head = parts[0]
        if head == "PADDING":
            continue
        is_label = (len(parts) == 1 and head not in KEYWORDS) or head in ("FUNC", "PROC")
        if is_label:
            stats["labels"] += 1
            if nb != 0:
                errors.append(("label-size", "label %s listed with %d bytes" % (txt, nb)))
            continue
        if off < cursor:
            errors.append(("order", "%s listed at %#x but the previous item ends at %#x" % (txt, off, cursor)))
            continue
        for x in range(cursor, min(off, len(img))):
            if img[x] != 0:
                errors.append(("gap", "non-zero byte at %#x between listed items" % x))
                break
        stats["gap"] += off - cursor
        if head == "DATA":
            if off & 3:
                errors.append(("data-align", "DATA listed at unaligned offset %#x" % off))
            if nb != 4:
                errors.append(("data-size", "DATA listed with %d bytes" % nb))
            if off + 4 > len(img):
                errors.append(("size", "DATA listed at %#x beyond the image" % off))
                continue
            w = struct.unpack_from("<I", img, off)[0]
            if w != (int(parts[1]) & M32):
                errors.append(("data-value", "DATA %s listed at %#x but the image holds %d" % (parts[1], off, w)))
            stats["data"] += 1
            cursor = off + 4
            stats["covered"] += 4
            continue
        if head == "OPR":
            if off >= len(img) or img[off] != (0xD0 | OPRS.get(parts[1], 99)):
                errors.append(("opr", "%s listed at %#x but the image holds %s" % (txt, off, img[off:off + 1].hex())))
            if nb != 1:
                errors.append(("size-listed", "%s listed with %d bytes" % (txt, nb)))
            stats["instr"] += 1
            cursor = off + 1
            stats["covered"] += 1
            continue
        if head not in OPC:
            errors.append(("format", "unknown directive %r" % txt))
            continue
        r = decode_chain(img, off)
        if r is None:
            errors.append(("size", "%s listed at %#x: image ends inside it" % (txt, off)))
            continue
        op, operand, end, n = r
        if op != OPC[head]:
            errors.append(("mnemonic", "%s listed at %#x but the image decodes to %s there" % (txt, off, OPCNAME.get(op, op))))
            cursor = off + (nb or 1)
            continue
        if n != nb:
            errors.append(("length", "%s listed with %d bytes at %#x but the encoding is %d bytes" % (txt, nb, off, n)))
        m = re.match(r"^\S+\s+(-?\d+)$", txt)
        want = None
        if m:
            want = int(m.group(1))
        else:
            m = re.match(r"^\S+\s+\S+\s+\((-?\d+)\)$", txt)
            if m:
                want = int(m.group(1))
                stats["label_operand"] += 1
            else:
                errors.append(("format", "no operand value in %r" % txt))
        if want is not None and (want & M32) != operand:
            errors.append(("operand", "%s listed at %#x but the encoded operand is %d" % (txt, off, operand)))
        stats["instr"] += 1
        stats["covered"] += n
        cursor = end
    if cursor > len(img):
        errors.append(("size", "listed items end at %#x, image has %#x bytes" % (cursor, len(img))))
    if len(img) - cursor >= 4:
        errors.append(("trailing", "%d image bytes after the last listed item" % (len(img) - cursor)))
    for x in range(cursor, len(img)):
        if img[x] != 0:
            errors.append(("trailing", "non-zero byte at %#x after the last listed item" % x))
            break
    return errors, stats
