"""Generator of *meaningful* hand-written-style assembly programs (hexasm syntax):
programs that compute, loop, call, take addresses, and issue system calls -
including shapes a compiler never emits (back-to-back SVC, backward LDAP used as
data, BRB jump tables, negative indexed operands, use of the zero start state of
the registers before anything is loaded).  Every word read has been
written or is part of the image, so hexsim/hextb/RTL must agree on them."""


def program(rnd, size=1.0):
    nvars = rnd.randrange(3, 9)
    narr = rnd.randrange(2, 6)
    L = ["BR start", "DATA %d # sp" % rnd.choice([16383, 100000, 199990, 4000])]
    for i in range(nvars):
        L += ["v%d" % i, "DATA %d" % rnd.choice([0, 1, 7, 65, 255, 256, 70000, -1, -70000, rnd.randrange(1 << 31), -2147483648, 2147483647, 1 << 30])]
    L += ["link", "DATA 0", "cnt", "DATA 0", "arr"]
    for i in range(narr):
        L.append("DATA %d" % rnd.randrange(-100, 1000))
    L.append("start")
    # the architectural start state (pc at 0, areg = breg = oreg = 0) used before any register is loaded
    if rnd.random() < 0.35:
        L += rnd.choice([["STAM v0"], ["OPR ADD", "STAM v0"], ["OPR SUB", "STAM v1"], ["BRZ st_z", "LDAC 77", "STAM v0", "st_z"],
                         ["BRN st_n", "LDBC 5", "OPR ADD", "STAM v1", "st_n"], ["STAM v0", "LDAM v0", "LDBC 65", "OPR ADD", "STAM v1"],
                         ["LDBM 1", "STAI 2", "LDAC 1", "STAI 3", "LDAC 1", "OPR SVC"]])
    labels = [0]

    def lab():
        labels[0] += 1
        return "L%d" % labels[0]

    def var():
        return "v%d" % rnd.randrange(nvars)

    def put(val_code, stream=None):
        s = stream if stream is not None else rnd.choice([0, 0, 0, 1, 255, 256 + 256 * rnd.randrange(1, 4)])
        out = val_code + ["LDBM 1", "STAI 2", "LDAC %d" % s, "STAI 3", "LDAC 1", "OPR SVC"]
        out += ["OPR SVC"] * rnd.choice([0, 0, 0, 1, 2])       # the same call again, back to back
        return out

    def get():
        out = ["LDAC %d" % rnd.choice([0, 0, 7, 255]), "LDBM 1", "STAI 2", "LDAC 2", "OPR SVC"]
        out += ["OPR SVC"] * rnd.choice([0, 0, 1])              # skip an input byte
        out += ["LDAM 1", "LDAI 1", "STAM %s" % var()]
        return out

    def block(depth):
        k = rnd.randrange(13)
        if k == 0:
            return ["LDAC %d" % rnd.choice([0, 1, 15, 16, 255, 4096, 65535, -1, -16, -257, -4097, rnd.randrange(-100000, 100000),
                                            -2147483648, 2147483647, 1 << 30, -(1 << 30)]), "STAM %s" % var()]
        if k == 1:
            return ["LDAM %s" % var(), "LDBM %s" % var(), "OPR %s" % rnd.choice(["ADD", "SUB"]), "STAM %s" % var()]
        if k == 2:
            return put(["LDAM %s" % var()] if rnd.random() < 0.6 else ["LDAC %d" % rnd.randrange(32, 127)])
        if k == 3:
            return get()
        if k == 4 and depth < 2:
            top, out = lab(), lab()
            body = []
            for _ in range(rnd.randrange(1, 3)):
                body += block(depth + 1)
            return (["LDAC %d" % rnd.randrange(1, 5), "STAM cnt%d" % depth if False else "STAM cnt", top] + body +
                    ["LDAM cnt", "LDBC 1", "OPR SUB", "STAM cnt", "BRZ %s" % out, "BR %s" % top, out]) if depth == 0 else body
        if k == 5:
            skip = lab()
            return ["LDAM %s" % var(), rnd.choice(["BRZ", "BRN"]) + " " + skip] + block(depth + 1) + [skip]
        if k == 6:
            # address of a label behind or ahead of the pc, used as data
            here = lab()
            return [here, "LDAP %s" % here, "LDBC %d" % rnd.randrange(0, 30), "OPR SUB", "STAM %s" % var()] if rnd.random() < 0.6 else \
                   ["LDAP %s" % here, "STAM %s" % var(), here]
        if k == 7:
            i = rnd.randrange(narr)
            return ["LDAC arr", "LDAI %d" % i, "STAM %s" % var()] if rnd.random() < 0.5 else \
                   ["LDAM %s" % var(), "LDBC arr", "STAI %d" % i]
        if k == 8:
            # negative indexed operand: base one past the element
            i = rnd.randrange(narr)
            return ["LDAC arr", "LDBC %d" % (i + 3), "OPR ADD", "LDAI -3", "STAM %s" % var()]
        if k == 9 and depth == 0:
            # call a leaf routine through LDAP/BR, return through BRB
            ret, proc, over = lab(), lab(), lab()
            body = block(2) + block(2)
            return ["BR %s" % over, proc, "STAM link"] + body + ["LDBM link", "OPR BRB", over, "LDAP %s" % ret, "BR %s" % proc, ret]
        if k == 10 and depth == 0:
            # computed jump through breg
            t = lab()
            return ["LDAP %s" % t, "STAM link", "LDBM link", "OPR BRB", "LDAC 63", "STAM %s" % var(), t]
        if k == 11 and depth == 0:
            # word-size loop: double a value until it becomes zero (the tests see every power of two, the sign bit included)
            top, out, neg, v = lab(), lab(), lab(), var()
            return ["LDAC %d" % rnd.choice([1, 3, 5]), "STAM %s" % v, top, "LDAM %s" % v, "BRZ %s" % out, "BRN %s" % neg, neg,
                    "LDAM %s" % v, "LDBM %s" % v, "OPR ADD", "STAM %s" % v, "BR %s" % top, out]
        return ["LDAM %s" % var(), "LDBC %d" % rnd.choice([1, 2, 255, 65536]), "OPR ADD", "STAM %s" % var()]

    n = rnd.randrange(3, int(14 * size) + 4)
    for _ in range(n):
        L += block(0)
    # make the state observable and leave
    for _ in range(rnd.randrange(0, 3)):
        L += put(["LDAM %s" % var()], 0)
    L += ["LDAM %s" % var(), "LDBM 1", "STAI 2", "LDAC 0", "OPR SVC"]
    inp = bytes(rnd.choice([rnd.randrange(256), 0x41, 0x80, 0xFF, 10]) for _ in range(rnd.choice([0, 1, 3, 8])))
    return "\n".join(L) + "\n", inp
