"""setup_cmd: pre-build every harness flavour for the current tree so quick checks start warm."""
import importlib
import sys
import time
from concurrent.futures import ThreadPoolExecutor

from lib import common

CHECKS = ["c02", "c04", "c05", "c17", "c01", "c08", "c07", "c15", "c03", "c16", "c13", "c06", "c14", "c12", "c11", "c09", "c10"]


def main():
    t0 = time.time()
    builders = []
    for c in CHECKS:
        m = importlib.import_module("checks." + c)
        if hasattr(m, "build"):
            builders.append((c, m.build))
    failed = []

    def one(cb):
        c, b = cb
        try:
            b()
            return None
        except Exception as e:  # noqa
            return "%s: %s" % (c, e)
    with ThreadPoolExecutor(max_workers=4) as ex:
        for r in ex.map(one, builders):
            if r:
                failed.append(r)
    for f in failed:
        print("setup: FAILED " + f)
    print("setup: built %d check harness sets in %.0fs" % (len(builders) - len(failed), time.time() - t0))
    return 1 if failed else 0


if __name__ == "__main__":
    sys.exit(main())
