#!/usr/bin/env python3
"""Entry point: python3 vcheck.py <Cxx> <quick|thorough> | <Cxx> --replay <file> | --setup"""
import importlib
import os
import sys
import traceback

sys.path.insert(0, os.path.dirname(os.path.abspath(__file__)))
from lib import common  # noqa: E402


def main(argv):
    if len(argv) >= 2 and argv[1] == "--setup":
        from lib import setup
        return setup.main()
    if len(argv) < 3:
        print(__doc__)
        return 2
    pid = argv[1].upper()
    mod = importlib.import_module("checks." + pid.lower())
    try:
        if argv[2] == "--replay":
            return mod.run("quick", replay=argv[3])
        tier = argv[2]
        if tier not in ("quick", "thorough"):
            print(__doc__)
            return 2
        os.environ.setdefault("VERIF_TIER", tier)
        return mod.run(tier)
    except common.HarnessError as e:
        print("%s: HARNESS FAILURE: %s" % (pid, e))
        return 2
    except Exception:
        traceback.print_exc()
        print("%s: HARNESS FAILURE (exception)" % pid)
        return 2


if __name__ == "__main__":
    sys.exit(main(sys.argv))
